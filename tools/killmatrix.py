#!/usr/bin/env python3
"""Regenerate the kill-matrix table in DESIGN.md from seeded/*/meta.json."""
import json, os, re
HERE = os.path.dirname(os.path.dirname(os.path.abspath(__file__)))
rows = []
for name in sorted(os.listdir(os.path.join(HERE, "seeded"))):
    mp = os.path.join(HERE, "seeded", name, "meta.json")
    if not os.path.exists(mp):
        continue
    m = json.load(open(mp))
    caught = m.get("caught_by", [])
    keys = []
    for r in m.get("ran", []):
        if r["exit"] == 1:
            keys = r["violation_keys"][:2]
            break
    what = m.get("summary", "")
    np_ = os.path.join(HERE, "seeded", name, "notes.md")
    if not what and os.path.exists(np_):
        first = next((ln.strip() for ln in open(np_) if ln.strip()), "")
        what = re.sub(r"^#+\s*(C\d\d)?\s*(change|Change)?\s*\d*\s*[-:\u2013\u2014]*\s*", "", first).replace("|", "/")[:160]
    if m.get("superseded"):
        how = "superseded by a later fix (see meta.json)" + (": " + ", ".join(caught) if caught else "")
    else:
        how = ", ".join(caught) or "**missed**"
    rows.append(f"| {name} | {m['property']} | {what} | {how} | {'; '.join(k.split('/', 1)[1] if '/' in k else k for k in keys)} |")
table = "| seeded change | property | change (needs to manifest) | caught by | first witness keys |\n|---|---|---|---|---|\n" + "\n".join(rows)
live = [r for r in rows if "superseded by a later fix" not in r]
table += f"\n\n{sum(1 for r in live if '**missed**' not in r)}/{len(live)} seeded changes that still break their property on the current tree are caught (quick tier unless noted); {len(rows) - len(live)} were superseded by later fixes.\n"
p = os.path.join(HERE, "DESIGN.md")
s = open(p).read()
s = re.sub(r"<!-- KILL-MATRIX-START -->.*<!-- KILL-MATRIX-END -->", "<!-- KILL-MATRIX-START -->\n" + table.replace("\\", "\\\\") + "<!-- KILL-MATRIX-END -->", s, flags=re.S)
open(p, "w").write(s)
print(table[-300:])
