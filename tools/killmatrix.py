#!/usr/bin/env python3
"""Regenerate the kill-matrix table in DESIGN.md from seeded/*/meta.json."""
import json, os, re
HERE = os.path.dirname(os.path.dirname(os.path.abspath(__file__)))
rows = []
for name in sorted(os.listdir(os.path.join(HERE, "seeded"))):
    mp = os.path.join(HERE, "seeded", name, "meta.json")
    if not os.path.exists(mp):
        continue
    m = json.load(open(mp))
    caught = m.get("caught_by", [])
    keys = []
    for r in m.get("ran", []):
        if r["exit"] == 1:
            keys = r["violation_keys"][:2]
            break
    what = m.get("summary", "")
    rows.append(f"| {name} | {m['property']} | {what} | {', '.join(caught) or '**missed**'} | {'; '.join(k.split('/', 1)[1] if '/' in k else k for k in keys)} |")
table = "| seeded change | property | change (needs to manifest) | caught by | first witness keys |\n|---|---|---|---|---|\n" + "\n".join(rows)
table += f"\n\n{sum(1 for r in rows if '**missed**' not in r)}/{len(rows)} seeded changes are caught by the check of the property they break.\n"
p = os.path.join(HERE, "DESIGN.md")
s = open(p).read()
s = re.sub(r"<!-- KILL-MATRIX-START -->.*<!-- KILL-MATRIX-END -->", "<!-- KILL-MATRIX-START -->\n" + table.replace("\\", "\\\\") + "<!-- KILL-MATRIX-END -->", s, flags=re.S)
open(p, "w").write(s)
print(table[-300:])
