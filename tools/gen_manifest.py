#!/usr/bin/env python3
"""Regenerate MANIFEST.json from the per-property metadata below (kept in one place)."""
import json, os, sys
HERE = os.path.dirname(os.path.dirname(os.path.abspath(__file__)))
BASELINE_OFF = "cd /repo && /venv/bin/python -m pytest -ra -q -p no:cacheprovider --timeout=900 --continue-on-collection-errors"

# id -> (category, technique, level text, level note, design ref)
CHECKS = json.load(open(os.path.join(HERE, "tools", "checks.json")))
ALL = [f"C{i:02d}" for i in range(1, 21)]

checks = []
for pid in ALL:
    c = CHECKS.get(pid)
    if not c or not c.get("claimed"):
        continue
    checks.append({
        "property_id": pid,
        "quick_cmd": f"./check {pid} quick",
        "thorough_cmd": f"./check {pid} thorough",
        "evidence_file": f"evidence/{pid}.json",
        "replay_cmd_template": "./check replay {path}",
        "engine": "fsverif",
        "level_claimed": {"category": c["category"], "text": c["text"], "design_ref": f"DESIGN.md §3 {pid}"},
        "level_note": c["note"],
        "technique": c["technique"],
    })
na = [{"property_id": pid, "reason": (CHECKS.get(pid) or {}).get("na_reason", "check not built yet in this session; runtime monitoring applies (see DESIGN.md §3) — listed here until its monitor is registered")}
      for pid in ALL if not (CHECKS.get(pid) or {}).get("claimed")]
m = {
    "version": 1,
    "setup_cmd": "./setup.sh",
    "hooks": {
        "guard": "FSVERIF_TAP",
        "enable": "no source hooks: the harness replaces the name `duckdb` inside fakesnow.instance with a tapping proxy before any instance is created (DESIGN.md §2.2); FSVERIF_TAP=1 is set by the runner for its workers",
        "baseline_off_cmd": BASELINE_OFF,
        "source_commits": [],
        "add_only": True,
    },
    "engines": [{"name": "fsverif", "path": "fsverif/", "serves_properties": [c["property_id"] for c in checks],
                 "kind_free_text": "runtime monitors (reference models, metamorphic twins, history checkers) over generated/hostile workloads run against the real fakesnow code, with an engine-call tap for fault/schedule injection"}],
    "checks": checks,
    "not_applicable": na,
    "notes": "Verdicts: exit 0 held on what was observed, 1 violation (VIOLATION line + replay file), 2 inconclusive. Known genuine defects are listed by mechanism key in known_findings.json; fixed ones are separate 'fix:' commits in /repo.",
}
json.dump(m, open(os.path.join(HERE, "MANIFEST.json"), "w"), indent=1)
print("claimed:", [c["property_id"] for c in checks], "na:", [n["property_id"] for n in na])
