#!/usr/bin/env python3
"""Vet a seeded change and run checks against it.

usage: tools/seeded.py vet <PROP> <change.diff> <demo.py> <name> [--notes notes.md]
           clones /repo to a scratch dir; confirms: patch applies, repository tests pass with it, the demo passes on the
           clean tree and fails with the change; then runs the property's quick check (FSVERIF_REPO=<scratch>), and the
           thorough one if quick misses; writes /verif/seeded/<name>/{patch.diff,demo.py,meta.json}
       tools/seeded.py run <name> [PROP[,PROP..]] [quick|thorough]
           re-runs checks against an already stored seeded change and updates meta.json
       tools/seeded.py matrix
           prints the kill matrix from the stored meta.json files
"""
import json
import os
import shutil
import subprocess
import sys
import tempfile
import time

HERE = os.path.dirname(os.path.dirname(os.path.abspath(__file__)))
SEEDED = os.path.join(HERE, "seeded")
PYTEST = ["/venv/bin/python", "-m", "pytest", "-q", "-p", "no:cacheprovider", "--timeout=900", "-x",
          "--deselect", "tests/test_fakes.py::test_get_result_batches", "--deselect", "tests/test_fakes.py::test_get_result_batches_dict"]


def clone(work: str) -> str:
    repo = os.path.join(work, "repo")
    subprocess.run(["git", "clone", "-q", "--no-hardlinks", "/repo", repo], check=True)
    return repo


def apply_patch(repo: str, patch: str):
    """git apply; when /repo has moved on since the change was written, fall back to a 3-way apply."""
    a = subprocess.run(["git", "-C", repo, "apply", patch], capture_output=True, text=True)
    if a.returncode:
        a = subprocess.run(["git", "-C", repo, "apply", "--3way", patch], capture_output=True, text=True)
        if a.returncode == 0:
            subprocess.run(["git", "-C", repo, "reset", "-q"], capture_output=True)
    return a


def run_check(prop: str, tier: str, repo: str, work: str) -> dict:
    env = {**os.environ, "FSVERIF_REPO": repo, "FSVERIF_OUT": os.path.join(work, "out")}
    t0 = time.time()
    c = subprocess.run([os.path.join(HERE, "check"), prop, tier], capture_output=True, text=True, env=env)
    keys = [ln.split("mechanism=", 1)[1].split(" :: ")[0] for ln in c.stdout.splitlines() if "mechanism=" in ln]
    return {"property": prop, "tier": tier, "exit": c.returncode, "violation_keys": keys[:12], "wall_s": round(time.time() - t0, 1),
            "summary": next((ln for ln in c.stdout.splitlines() if ln.startswith("[")), "")[:200]}


def demo(repo: str, demo_py: str) -> tuple[int, str]:
    d = subprocess.run(["/venv/bin/python", os.path.abspath(demo_py)], cwd=repo, capture_output=True, text=True, timeout=600,
                       env={**os.environ, "PYTHONPATH": repo})
    return d.returncode, (d.stdout + d.stderr)[-600:]


def vet(prop: str, patch: str, demo_py: str, name: str, notes: str | None) -> int:
    work = tempfile.mkdtemp(prefix="fsverif-seeded-")
    meta: dict = {"name": name, "property": prop, "ran": []}
    try:
        repo = clone(work)
        meta["base_commit"] = subprocess.run(["git", "-C", repo, "rev-parse", "--short", "HEAD"], capture_output=True, text=True).stdout.strip()
        rc0, out0 = demo(repo, demo_py)
        meta["demo_on_clean_tree"] = {"exit": rc0, "tail": out0[-300:]}
        a = apply_patch(repo, os.path.abspath(patch))
        if a.returncode:
            print("PATCH DOES NOT APPLY", a.stderr)
            return 3
        t = subprocess.run(PYTEST, cwd=repo, capture_output=True, text=True, env={**os.environ, "PYTHONPATH": repo})
        last = t.stdout.strip().splitlines()[-1] if t.stdout.strip() else t.stderr[-200:]
        meta["repo_tests_with_change"] = last
        rc1, out1 = demo(repo, demo_py)
        meta["demo_with_change"] = {"exit": rc1, "tail": out1[-300:]}
        import re as _re
        ok = rc0 == 0 and rc1 != 0 and " passed" in last and not _re.search(r"\b\d+ (failed|error)", last)
        meta["confirmed"] = ok
        print(f"{name}: demo clean={rc0} changed={rc1}; tests: {last}; confirmed={ok}")
        if not ok:
            print(json.dumps(meta, indent=1)[:1500])
            return 4
        r = run_check(prop, "quick", repo, work)
        meta["ran"].append(r)
        print("  quick:", r["exit"], r["violation_keys"][:3])
        if r["exit"] != 1 and "--quick-only" not in sys.argv:
            r = run_check(prop, "thorough", repo, work)
            meta["ran"].append(r)
            print("  thorough:", r["exit"], r["violation_keys"][:3])
        meta["caught_by"] = [f"{x['property']}:{x['tier']}" for x in meta["ran"] if x["exit"] == 1]
        dst = os.path.join(SEEDED, name)
        os.makedirs(dst, exist_ok=True)
        shutil.copy(patch, os.path.join(dst, "patch.diff"))
        shutil.copy(demo_py, os.path.join(dst, "demo.py"))
        if notes and os.path.exists(notes):
            shutil.copy(notes, os.path.join(dst, "notes.md"))
            meta["needs_to_manifest"] = "see notes.md"
        json.dump(meta, open(os.path.join(dst, "meta.json"), "w"), indent=1)
        return 0
    finally:
        shutil.rmtree(work, ignore_errors=True)


def rerun(name: str, props: list[str] | None, tier: str) -> int:
    dst = os.path.join(SEEDED, name)
    meta = json.load(open(os.path.join(dst, "meta.json")))
    work = tempfile.mkdtemp(prefix="fsverif-seeded-")
    try:
        repo = clone(work)
        a = apply_patch(repo, os.path.join(dst, "patch.diff"))
        if a.returncode:
            print("PATCH DOES NOT APPLY any more:", a.stderr[:300])
            meta["applies_to_head"] = False
            json.dump(meta, open(os.path.join(dst, "meta.json"), "w"), indent=1)
            return 3
        for p in props or [meta["property"]]:
            r = run_check(p, tier, repo, work)
            meta["ran"] = [x for x in meta["ran"] if not (x["property"] == p and x["tier"] == tier)] + [r]
            print(f"{name} {p} {tier}: exit={r['exit']} {r['violation_keys'][:3]} {r['summary']}")
        meta["caught_by"] = sorted({f"{x['property']}:{x['tier']}" for x in meta["ran"] if x["exit"] == 1})
        json.dump(meta, open(os.path.join(dst, "meta.json"), "w"), indent=1)
        return 0
    finally:
        shutil.rmtree(work, ignore_errors=True)


def matrix() -> int:
    rows = []
    for name in sorted(os.listdir(SEEDED)):
        mp = os.path.join(SEEDED, name, "meta.json")
        if os.path.exists(mp):
            m = json.load(open(mp))
            rows.append((name, m["property"], ",".join(m.get("caught_by", [])) or "MISSED"))
    for r in rows:
        print(f"{r[0]:28s} {r[1]:5s} {r[2]}")
    print(f"{sum(1 for r in rows if r[2] != 'MISSED')}/{len(rows)} caught")
    return 0


if __name__ == "__main__":
    cmd = sys.argv[1]
    if cmd == "vet":
        notes = sys.argv[sys.argv.index("--notes") + 1] if "--notes" in sys.argv else None
        sys.exit(vet(sys.argv[2], sys.argv[3], sys.argv[4], sys.argv[5], notes))
    if cmd == "run":
        props = sys.argv[3].split(",") if len(sys.argv) > 3 and sys.argv[3] not in ("quick", "thorough") else None
        tier = sys.argv[-1] if sys.argv[-1] in ("quick", "thorough") else "quick"
        sys.exit(rerun(sys.argv[2], props, tier))
    if cmd == "matrix":
        sys.exit(matrix())
