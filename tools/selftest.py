#!/usr/bin/env python3
"""Self-validation: apply a patch to a scratch copy of /repo and run checks against it.

usage: tools/selftest.py <patch.diff> <PROP>[,<PROP>...] [quick|thorough] [--tests]
Prints per property: exit code and the VIOLATION lines. The scratch copy is removed afterwards."""
import os, shutil, subprocess, sys, tempfile
HERE = os.path.dirname(os.path.dirname(os.path.abspath(__file__)))
patch, props = sys.argv[1], sys.argv[2].split(",")
tier = sys.argv[3] if len(sys.argv) > 3 and not sys.argv[3].startswith("--") else "quick"
run_tests = "--tests" in sys.argv
work = tempfile.mkdtemp(prefix="fsverif-selftest-")
rc_all = 0
try:
    repo = os.path.join(work, "repo")
    subprocess.run(["git", "clone", "-q", "--no-hardlinks", "/repo", repo], check=True)
    # carry over uncommitted state of /repo too
    d = subprocess.run(["git", "-C", "/repo", "diff", "HEAD"], capture_output=True, text=True).stdout
    if d.strip():
        subprocess.run(["git", "-C", repo, "apply"], input=d, text=True, check=True)
    r = subprocess.run(["git", "-C", repo, "apply", os.path.abspath(patch)], capture_output=True, text=True)
    if r.returncode:
        print("PATCH DOES NOT APPLY:", r.stderr); sys.exit(3)
    if run_tests:
        t = subprocess.run(["/venv/bin/python", "-m", "pytest", "-q", "-p", "no:cacheprovider", "-x", "--timeout=900",
                            "--deselect", "tests/test_fakes.py::test_get_result_batches",
                            "--deselect", "tests/test_fakes.py::test_get_result_batches_dict"],
                           cwd=repo, capture_output=True, text=True, env={**os.environ, "PYTHONPATH": repo})
        print("repo tests on mutant:", t.stdout.strip().splitlines()[-1] if t.stdout.strip() else t.stderr[-300:])
    for p in props:
        env = {**os.environ, "FSVERIF_REPO": repo, "FSVERIF_OUT": os.path.join(work, "out")}
        c = subprocess.run([os.path.join(HERE, "check"), p, tier], capture_output=True, text=True, env=env)
        lines = [l for l in c.stdout.splitlines() if l.startswith(("VIOLATION", "  mechanism", "INCONCLUSIVE", "["))]
        print(f"{p}: exit={c.returncode}")
        for l in lines[:8]:
            print("   ", l[:300])
        if c.returncode != 1:
            rc_all = 1
            print(c.stderr[-500:])
finally:
    shutil.rmtree(work, ignore_errors=True)
sys.exit(rc_all)
