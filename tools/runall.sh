#!/bin/sh
# run every claimed check once (tier $1, default quick) and print one summary line each
cd "$(dirname "$0")/.." || exit 2
tier=${1:-quick}
for p in $(python3 -c "import json;print(' '.join(c['property_id'] for c in json.load(open('MANIFEST.json'))['checks']))"); do
  out=$(./check $p $tier 2>&1); rc=$?
  echo "$p rc=$rc $(echo "$out" | grep -E '^\[' | cut -c1-160)"
  echo "$out" | grep -E "^VIOLATION|mechanism=|INCONCLUSIVE" | cut -c1-300 | head -6
done
