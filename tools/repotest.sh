#!/bin/sh
# run the repository's own baseline (guard off: nothing of fsverif is loaded) and summarise
cd /repo && /venv/bin/python -m pytest -q -p no:cacheprovider --timeout=900 --continue-on-collection-errors -x --deselect tests/test_fakes.py::test_get_result_batches --deselect tests/test_fakes.py::test_get_result_batches_dict "$@" 2>&1 | tail -4
