# helper with from-import targets (already imported before patch() is entered)
from snowflake.connector import connect
from snowflake.connector.pandas_tools import write_pandas
import os
not_snowflake = os.getcwd
