# helper that is NOT imported before patch() is entered, and that imports another such helper
import fsverif_helper_f  # noqa: F401
from snowflake.connector import connect  # noqa: F401
