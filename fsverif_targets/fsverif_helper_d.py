# helper imported before patch() that binds the targets under other names
from snowflake.connector import connect as sf_connect
from snowflake.connector.pandas_tools import write_pandas as sf_write_pandas
