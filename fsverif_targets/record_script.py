# recording target for the fakesnow CLI checks: dumps what it sees
import json, os, sys
import snowflake.connector
out = os.environ.get("FSVERIF_ARGV_OUT")
if out:
    with open(out, "w") as f:
        json.dump({"argv": sys.argv, "name": __name__,
                   "connect_is_mock": type(snowflake.connector.connect).__name__}, f)
