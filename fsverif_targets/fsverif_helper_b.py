# helper that is NOT imported before patch() is entered
from snowflake.connector import connect
from snowflake.connector.pandas_tools import write_pandas
