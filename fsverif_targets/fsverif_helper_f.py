# helper only ever imported as a side effect of importing fsverif_helper_e
from snowflake.connector import connect  # noqa: F401
from snowflake.connector.pandas_tools import write_pandas  # noqa: F401
