#!/bin/sh
# Offline setup: nothing to build (pure Python). Smoke-test the interpreter, the repo import and the tap.
cd "$(dirname "$0")" || exit 2
mkdir -p evidence replays
exec env PYTHONHASHSEED=0 PYTHONPATH="$(pwd)" /venv/bin/python -B -c "
from fsverif import core, tap
fs = core.new_fs(); c = fs.connect('db1','s1'); cur = c.cursor()
assert cur.execute('select 1').fetchall() == [(1,)]
assert tap.CALLS > 0
print('fsverif setup ok: fakesnow from', core.fakesnow.__file__)
"
