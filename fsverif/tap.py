"""Engine tap: every DuckDB call fakesnow makes goes through a Tap proxy.

Installed from the harness (no repo edits): the name ``duckdb`` as seen by
``fakesnow.instance`` is replaced by a shim whose ``connect`` wraps the real
connection.  Exceptions propagate unchanged.
"""

from __future__ import annotations

import itertools
import os
import re
import threading
import time
from typing import Any, Callable

_lock = threading.Lock()
_seq = itertools.count()
_session_ids = itertools.count()

# global event log (bounded) + counters
LOG: list[tuple] = []
LOG_ENABLED = False
LOG_MAX = 200000
CALLS = 0
SHAPES: set[str] = set()

# injection hook: callable(phase, tap, method, sql) -> None ; may raise / kill / block
HOOK: Callable[[str, "Tap", str, str | None], None] | None = None

_num = re.compile(r"\b\d+(\.\d+)?\b")
_str = re.compile(r"'(?:[^']|'')*'")
_ws = re.compile(r"\s+")


def shape(sql: str | None) -> str:
    if sql is None:
        return ""
    s = _str.sub("'?'", sql)
    s = _num.sub("0", s)
    s = _ws.sub(" ", s).strip()
    return s[:200]


class Tap:
    """Proxy around a DuckDBPyConnection (root connection or cursor)."""

    def __init__(self, real: Any, parent: "Tap | None" = None):
        object.__setattr__(self, "_real", real)
        object.__setattr__(self, "_parent", parent)
        object.__setattr__(self, "_sid", next(_session_ids))
        object.__setattr__(self, "_tag", None)
        object.__setattr__(self, "_closed", False)

    # -- logging ---------------------------------------------------------
    def _record(self, method: str, sql: str | None, outcome: str, dur: float) -> None:
        global CALLS
        with _lock:
            CALLS += 1
            if sql is not None and len(SHAPES) < 20000:
                SHAPES.add(shape(sql))
            if LOG_ENABLED and len(LOG) < LOG_MAX:
                LOG.append((self._sid, next(_seq), method, sql, outcome, dur, threading.get_ident()))

    def _call(self, method: str, sql: str | None, fn: Callable[[], Any]) -> Any:
        hook = HOOK
        if hook is not None:
            hook("before", self, method, sql)
        t0 = time.perf_counter()
        try:
            r = fn()
        except BaseException as e:  # noqa: BLE001
            self._record(method, sql, type(e).__name__, time.perf_counter() - t0)
            if hook is not None:
                hook("error", self, method, sql)
            raise
        self._record(method, sql, "ok", time.perf_counter() - t0)
        if hook is not None:
            hook("after", self, method, sql)
        return r

    # -- proxied API -----------------------------------------------------
    def execute(self, sql: Any, *a: Any, **k: Any) -> "Tap":
        real = self._real
        self._call("execute", str(sql), lambda: real.execute(sql, *a, **k))
        return self

    def fetchall(self) -> Any:
        return self._call("fetchall", None, self._real.fetchall)

    def fetchone(self) -> Any:
        return self._call("fetchone", None, self._real.fetchone)

    def fetchmany(self, *a: Any) -> Any:
        return self._call("fetchmany", None, lambda: self._real.fetchmany(*a))

    def fetch_arrow_table(self, *a: Any, **k: Any) -> Any:
        return self._call("fetch_arrow_table", None, lambda: self._real.fetch_arrow_table(*a, **k))

    def cursor(self) -> "Tap":
        return Tap(self._call("cursor", None, self._real.cursor), parent=self)

    def close(self) -> None:
        object.__setattr__(self, "_closed", True)
        return self._call("close", None, self._real.close)

    def __getattr__(self, name: str) -> Any:
        return getattr(self._real, name)

    def __setattr__(self, name: str, value: Any) -> None:
        setattr(self._real, name, value)


class _Shim:
    """Stands in for the ``duckdb`` module inside ``fakesnow.instance``."""

    def __init__(self, real_module: Any):
        self._m = real_module
        self.roots: list[Tap] = []

    def connect(self, *a: Any, **k: Any) -> Tap:
        real = self._m.connect(*a, **k)
        # performance only: 16 workers x one engine thread pool per instance oversubscribe the machine otherwise
        try:
            real.execute(f"SET threads = {int(os.environ.get('FSVERIF_DUCKDB_THREADS', '2'))}")
        except Exception:  # noqa: BLE001
            pass
        t = Tap(real)
        self.roots.append(t)
        if len(self.roots) > 64:
            del self.roots[:32]
        return t

    def __getattr__(self, name: str) -> Any:
        return getattr(self._m, name)


SHIM: _Shim | None = None


def install() -> _Shim:
    """Install the tap.  Must be called before fakesnow.server is imported."""
    global SHIM
    if SHIM is not None:
        return SHIM
    import duckdb as real_duckdb

    import fakesnow.instance as inst

    SHIM = _Shim(real_duckdb)
    inst.duckdb = SHIM  # type: ignore[attr-defined]
    return SHIM


def reset_log(enabled: bool = True) -> None:
    global LOG_ENABLED
    with _lock:
        LOG.clear()
        LOG_ENABLED = enabled


def log_slice(start: int = 0) -> list[tuple]:
    with _lock:
        return LOG[start:]


def log_len() -> int:
    with _lock:
        return len(LOG)
