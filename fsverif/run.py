"""Parent driver: ./check <ID> <quick|thorough>  |  ./check replay <file>

Shards a property's cases over worker subprocesses, aggregates what the monitors
observed, applies the known-findings file, writes evidence/<ID>.json and prints the
verdict (exit 0 held / 1 violation / 2 inconclusive)."""

from __future__ import annotations

import hashlib
import importlib
import json
import os
import shutil
import subprocess
import sys
import tempfile
import time
from collections import Counter

HERE = os.path.dirname(os.path.dirname(os.path.abspath(__file__)))
REPO = os.environ.get("FSVERIF_REPO", "/repo")
OUT = os.environ.get("FSVERIF_OUT", HERE)  # evidence/replays root (selftest redirects it)
PY = sys.executable


def tree_identity() -> dict:
    def g(*a: str) -> str:
        try:
            return subprocess.run(["git", "-C", REPO, *a], capture_output=True, text=True, timeout=30).stdout
        except Exception:  # noqa: BLE001
            return ""

    diff = g("diff", "HEAD")
    return {
        "repo": REPO,
        "head": g("rev-parse", "HEAD").strip(),
        "dirty_diff_sha1": hashlib.sha1(diff.encode()).hexdigest() if diff else None,
    }


def load_known() -> dict:
    path = os.path.join(HERE, "known_findings.json")
    if not os.path.exists(path):
        return {"findings": [], "fixed": []}
    with open(path) as f:
        return json.load(f)


def merge_results(results: list[dict]) -> dict:
    agg: dict = {
        "evaluations": 0,
        "counters": Counter(),
        "coverage": {},
        "witnesses": [],
        "witness_counts": Counter(),
        "fingerprints": set(),
        "samples": [],
        "tap_calls": 0,
        "tap_shapes": 0,
        "stopped_early": 0,
    }
    for r in results:
        agg["evaluations"] += r["evaluations"]
        agg["counters"].update(r["counters"])
        for t, cells in r["coverage"].items():
            agg["coverage"].setdefault(t, Counter()).update(cells)
        agg["witnesses"].extend(r["witnesses"])
        agg["witness_counts"].update(r["witness_counts"])
        agg["fingerprints"].update(r["fingerprints"])
        if len(agg["samples"]) < 6:
            agg["samples"].extend(r["samples"][:2])
        agg["tap_calls"] += r["tap_calls"]
        agg["tap_shapes"] = max(agg["tap_shapes"], r["tap_shapes"])
        agg["stopped_early"] += 1 if r.get("stopped_early") else 0
    return agg


def run_property(prop: str, tier: str) -> int:
    t0 = time.time()
    seed = int(os.environ.get("VERIF_SEED", "0") or 0)
    mod = importlib.import_module(f"fsverif.props.{prop.lower()}")
    nshards = int(os.environ.get("FSVERIF_WORKERS", mod.WORKERS.get(tier, 16) if hasattr(mod, "WORKERS") else 16))
    budget = float(mod.BUDGET[tier])
    work = tempfile.mkdtemp(prefix=f"fsverif-{prop}-")
    procs = []
    env = dict(os.environ)
    env["PYTHONHASHSEED"] = "0"
    env["PYTHONPATH"] = HERE + os.pathsep + env.get("PYTHONPATH", "")
    env.setdefault("FSVERIF_REPO", REPO)
    env["FSVERIF_TAP"] = "1"
    for sh in range(nshards):
        out = os.path.join(work, f"r{sh}.json")
        log = open(os.path.join(work, f"w{sh}.log"), "wb")
        p = subprocess.Popen(
            [PY, "-B", "-m", "fsverif.worker", prop, tier, str(seed), str(sh), str(nshards), str(budget), out],
            cwd=work,
            env=env,
            stdout=log,
            stderr=subprocess.STDOUT,
        )
        procs.append((p, out, log))
    watchdog = t0 + 3 * budget + 120
    results, problems = [], []
    for p, out, log in procs:
        try:
            p.wait(timeout=max(1.0, watchdog - time.time()))
        except subprocess.TimeoutExpired:
            p.kill()
            p.wait()
            problems.append(f"worker watchdog fired ({out})")
        log.close()
        if os.path.exists(out):
            with open(out) as f:
                r = json.load(f)
            results.append(r)
            if r["status"] != "done":
                problems.append(f"worker {r['shard']}: {r['status']}: {r.get('error')}")
        else:
            tail = ""
            try:
                with open(log.name, "rb") as lf:
                    raw_log = lf.read().decode("utf-8", "replace")
                # the head of a faulthandler dump names the failing thread's stack; the tail lists extension modules
                tail = raw_log[:1500] + (" ... " + raw_log[-300:] if len(raw_log) > 1800 else "")
            except OSError:
                pass
            last = ""
            try:
                with open(out + ".cur") as cf:
                    cur_case = json.load(cf)
                os.makedirs(os.path.join(OUT, "replays"), exist_ok=True)
                rp = os.path.join(OUT, "replays", f"{prop}-{seed}-died-{len(problems)}.json")
                with open(rp, "w") as rf:
                    json.dump({"property": prop, "tier": tier, "seed": seed, "key": "WORKER-DIED", "detail": tail, "case": cur_case["case"], "extra": None}, rf)
                last = f" while running case {cur_case['index']} (stored as {os.path.relpath(rp, OUT)})"
            except (OSError, ValueError):
                pass
            problems.append(f"worker died without a verdict (rc={p.returncode}){last}: {tail}")
    shutil.rmtree(work, ignore_errors=True)

    agg = merge_results(results) if results else None
    known = load_known()
    known_keys = {k["key"]: k for k in known.get("findings", []) if k.get("property") == prop}

    violations, known_hits = [], []
    seen = set()
    if agg:
        for w in agg["witnesses"]:
            k = w["key"]
            if k in seen:
                continue
            seen.add(k)
            if k == "HARNESS-ERROR":
                continue
            if k in known_keys:
                known_hits.append(w)
            else:
                violations.append(w)

    # inconclusive conditions
    if agg:
        for c in getattr(mod, "REQUIRED_COUNTERS", {}).get(tier, getattr(mod, "REQUIRED", [])):
            if agg["counters"].get(c, 0) <= 0:
                problems.append(f"deciding monitor '{c}' was never evaluated")
        if agg["evaluations"] == 0:
            problems.append("no cases executed")
        if agg["counters"].get("inconclusive_cases", 0) > max(3, 0.2 * agg["evaluations"]):
            problems.append(f"{agg['counters']['inconclusive_cases']} inconclusive cases")
    else:
        problems.append("no worker results")

    wall = time.time() - t0
    os.makedirs(os.path.join(OUT, "evidence"), exist_ok=True)
    os.makedirs(os.path.join(OUT, "replays"), exist_ok=True)

    lines = []
    for i, w in enumerate(violations):
        rp = os.path.join("replays", f"{prop}-{seed}-{i}.json")
        with open(os.path.join(OUT, rp), "w") as f:
            json.dump({"property": prop, "tier": tier, "seed": seed, "key": w["key"], "detail": w["detail"],
                       "case": w["case"], "extra": w.get("extra")}, f, indent=1)
        lines.append(f"VIOLATION property={prop} replay={rp}")
        lines.append(f"  mechanism={w['key']} :: {w['detail'][:300]}")
    for w in known_hits:
        lines.append(f"KNOWN-FINDING: property={prop} {w['key']} :: {known_keys[w['key']].get('what', '')}")

    if agg:
        ev = {
            "property_id": prop,
            "tier": tier,
            "seed": seed,
            "level": getattr(mod, "LEVEL", "exploration"),
            "coverage": {
                "evaluations": agg["evaluations"],
                "distinct_nontrivial": len(agg["fingerprints"]),
                "rule": mod.RULE,
                "samples": agg["samples"][:6],
                "exhaustive": bool(getattr(mod, "EXHAUSTIVE", {}).get(tier, False)) and not agg["stopped_early"],
                "tables": {t: dict(sorted(c.items())) for t, c in sorted(agg["coverage"].items())},
                "monitor_evaluations": dict(sorted(agg["counters"].items())),
                "engine_calls_seen_by_tap": agg["tap_calls"],
                "distinct_sql_shapes_seen_by_tap_max_per_worker": agg["tap_shapes"],
                "workers": len(results),
                "workers_stopped_by_time_budget": agg["stopped_early"],
                "known_finding_hits": {w["key"]: agg["witness_counts"][w["key"]] for w in known_hits},
                "violation_keys": {w["key"]: agg["witness_counts"][w["key"]] for w in violations},
                "inconclusive_reasons": problems,
                "tree": tree_identity(),
            },
            "assumptions": list(getattr(mod, "ASSUMPTIONS", [])),
            "wall_s": round(wall, 2),
            "violations": len(violations),
        }
        with open(os.path.join(OUT, "evidence", f"{prop}.json"), "w") as f:
            json.dump(ev, f, indent=1, sort_keys=False, default=repr)

    for ln in lines:
        print(ln)
    if agg:
        print(
            f"[{prop} {tier} seed={seed}] cases={agg['evaluations']} distinct_nontrivial={len(agg['fingerprints'])} "
            f"engine_calls={agg['tap_calls']} violations={len(violations)} known={len(known_hits)} wall={wall:.1f}s"
        )
    for pr in problems:
        print(f"INCONCLUSIVE property={prop} reason={pr[:600]}")
    if violations:
        return 1
    if problems:
        return 2
    return 0


def replay(path: str) -> int:
    with open(path) as f:
        rec = json.load(f)
    prop = rec["property"]
    os.environ.setdefault("FSVERIF_REPO", REPO)
    from fsverif import core

    mod = importlib.import_module(f"fsverif.props.{prop.lower()}")
    env = core.Env(prop, rec.get("tier", "quick"), rec.get("seed", 0))
    case = rec["case"]
    if hasattr(mod, "setup_worker"):
        mod.setup_worker(env)
    env.case = case
    mod.run_case(case, env)
    print(json.dumps({"expected_key": rec.get("key"), "observed": env.witnesses}, indent=1, default=repr))
    hit = any(w["key"] == rec.get("key") for w in env.witnesses)
    print("REPRODUCED" if hit else "NOT REPRODUCED")
    return 1 if env.witnesses else 0


def main() -> int:
    if len(sys.argv) >= 3 and sys.argv[1] == "replay":
        return replay(sys.argv[2])
    if len(sys.argv) != 3 or sys.argv[2] not in ("quick", "thorough"):
        print("usage: check <ID> <quick|thorough> | check replay <file>")
        return 64
    return run_property(sys.argv[1].upper(), sys.argv[2])


if __name__ == "__main__":
    sys.exit(main())
