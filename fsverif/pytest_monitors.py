"""pytest plugin: the repository's own test-suite as a workload under always-on invariants (DESIGN 2.3).

Loaded with ``-p fsverif.pytest_monitors`` (PYTHONPATH=/verif, the repository first on sys.path).  It wraps the real
``FakeSnowflakeCursor.execute / fetchmany`` (fetchone and fetchall go through fetchmany), so the invariants are evaluated on every
call any test makes, including the calls fakesnow makes to itself and the ones the HTTP server makes.  Invariants record and return:
they never raise into the test.  What was observed goes to the JSON file named by FSVERIF_PYTEST_OUT.

I-width  (C05): every tuple row handed out has as many elements as the result has columns; a fetch hands out exactly the rows
                between the old and the new position, the position never moves backwards and never passes the end by handing
                out rows that are not there.
I-ctx    (C03): after every execute, successful or not, a connection that says it has a current database and schema reports the
                ones the engine session actually uses (read on the session's own engine connection).
"""

from __future__ import annotations

import json
import os
import threading
from collections import Counter
from typing import Any

_lock = threading.Lock()
COUNTS: Counter = Counter()
WITNESSES: list[dict] = []


def _witness(key: str, detail: str) -> None:
    with _lock:
        COUNTS["witness:" + key] += 1
        if sum(1 for w in WITNESSES if w["key"] == key) < 3:
            WITNESSES.append({"key": key, "detail": detail[:700], "test": os.environ.get("PYTEST_CURRENT_TEST", "")})


def _install() -> None:
    import fakesnow.cursor as fc

    cls = fc.FakeSnowflakeCursor
    orig_execute, orig_fetchmany = cls.execute, cls.fetchmany

    def execute(self: Any, command: Any, *a: Any, **k: Any) -> Any:
        try:
            return orig_execute(self, command, *a, **k)
        finally:
            try:
                _ctx(self, command)
            except Exception as e:  # noqa: BLE001 - the monitor must never disturb the test
                with _lock:
                    COUNTS["ctx_monitor_could_not_read:" + type(e).__name__] += 1

    def _ctx(self: Any, command: Any) -> None:
        conn = self._conn
        if getattr(conn, "_is_closed", False) or not (getattr(conn, "database_set", False) and getattr(conn, "schema_set", False)):
            with _lock:
                COUNTS["ctx_skipped_no_context_or_closed"] += 1
            return
        got = self._duck_conn.execute("SELECT current_database(), current_schema()").fetchall()[0]
        with _lock:
            COUNTS["ctx_evaluations"] += 1
        want = (conn.database, conn.schema)
        if (str(got[0]).upper(), str(got[1]).upper()) != (str(want[0]).upper(), str(want[1]).upper()):
            _witness("C03/repo-tests/context/connection-and-engine-disagree", f"after {str(command)[:200]!r}: connection says {want}, engine session uses {got}")

    def fetchmany(self: Any, size: Any = None) -> Any:
        tbl = self._arrow_table
        before = self._arrow_table_fetch_index or 0
        rows = orig_fetchmany(self, size)
        try:
            if tbl is not None and tbl is self._arrow_table:
                after = self._arrow_table_fetch_index or 0
                with _lock:
                    COUNTS["width_evaluations"] += 1
                    COUNTS["rows_handed_out"] += len(rows)
                ncols, nrows = tbl.num_columns, tbl.num_rows
                if after < before:
                    _witness("C05/repo-tests/position-moved-backwards", f"fetchmany({size}): {before} -> {after}")
                expect = max(0, min(nrows, after) - min(nrows, before))
                if len(rows) != expect:
                    _witness("C05/repo-tests/handout-count", f"fetchmany({size}) handed out {len(rows)} rows, position {before} -> {after} of {nrows}")
                if not self._use_dict_result:
                    bad = [len(r) for r in rows if len(r) != ncols]
                    if bad:
                        _witness("C05/repo-tests/width", f"rows of {bad[:3]} elements for a result of {ncols} columns")
        except Exception as e:  # noqa: BLE001
            with _lock:
                COUNTS["width_monitor_error:" + type(e).__name__] += 1
        return rows

    cls.execute = execute  # type: ignore[method-assign]
    cls.fetchmany = fetchmany  # type: ignore[method-assign]


def pytest_configure(config: Any) -> None:
    _install()


def pytest_sessionfinish(session: Any, exitstatus: Any) -> None:
    out = os.environ.get("FSVERIF_PYTEST_OUT")
    if out:
        with open(out, "w") as f:
            json.dump({"counts": dict(COUNTS), "witnesses": WITNESSES, "exitstatus": int(exitstatus)}, f)
