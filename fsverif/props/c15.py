"""C15 Session variables substitute exactly, per connection.

Monitor: VarModel (upper-cased name -> value, per connection) run beside SET/UNSET/use histories
over prefix-related name sets and hostile values; tap counts engine calls of undefined references."""

from __future__ import annotations

import datetime
import decimal
import random
from typing import Any

from fsverif import core, tap

ID = "C15"
LEVEL = "exploration"
BUDGET = {"quick": 60, "thorough": 420}
RULE = (
    "case = history of SET/UNSET/use/look-alike/undefined-reference steps over 2 connections x 2 cursors with names drawn "
    "from prefix-related and case-variant sets and values from hostile pools; every use is compared with the per-connection "
    "variable model. Non-trivial = at least 2 variables defined at once on one connection and at least one use compared; "
    "distinct = distinct histories."
)
REQUIRED = ["cmp_use", "cmp_literal", "cmp_undefined", "cmp_other_conn", "cmp_prefix_use", "cmp_unset"]
ASSUMPTIONS = [
    "SET values are literals (numbers, strings) or a parenthesis-free arithmetic expression; Snowflake evaluates the "
    "expression at SET time, so $v stands for its value",
    "variable names are ASCII identifiers",
]

NAMES = ["v", "v1", "v10", "v1x", "V1", "var", "var_2", "VAR", "_x", "v_", "a", "ab", "abc", "Abc"]

# (class, sql text, python value)
VALUES = [
    ("int", "5", 5),
    ("int", "42", 42),
    ("negint", "-3", -3),
    ("dec", "1.5", decimal.Decimal("1.5")),
    ("str-plain", "'abc'", "abc"),
    ("str-empty", "''", ""),
    ("str-space", "'a b'", "a b"),
    ("str-quote", "'it''s'", "it's"),
    ("str-dollar", "'a$b'", "a$b"),
    ("str-dollar-ref", "'$v1'", "$v1"),
    ("str-dollar-end", "'cost$'", "cost$"),
    ("str-backslash", "'x\\\\y'", "x\\y"),
    ("str-backslash-b", "'a\\\\b'", "a\\b"),
    ("str-backslash-n", "'a\\\\n'", "a\\n"),
    ("str-double-backslash", "'a\\\\\\\\b'", "a\\\\b"),
    ("str-newline-escape", "'l1\\nl2'", "l1\nl2"),
    ("str-escaped-quote", "'q\\'q'", "q'q"),
    ("str-percent", "'100%'", "100%"),
    ("str-percent-s", "'%s'", "%s"),
    ("str-semicolon", "'a;b'", "a;b"),
    ("str-comment", "'a--b'", "a--b"),
    ("str-unicode", "'héllo ✓'", "héllo ✓"),
    ("expr-add", "1 + 2", 3),
    # the value of a scalar subquery, of every type a query can give
    ("subq-dec", "(SELECT 9.50)", decimal.Decimal("9.50")),
    ("subq-max-dec", "(SELECT MAX(P) FROM PRICES)", decimal.Decimal("9.50")),
    ("subq-date", "(SELECT MAX(D) FROM PRICES)", datetime.date(2024, 1, 2)),
    ("subq-ts", "(SELECT MAX(TS) FROM PRICES)", datetime.datetime(2024, 1, 2, 3, 4, 5)),
    ("subq-count", "(SELECT COUNT(*) FROM PRICES)", 2),
    ("subq-str", "(SELECT 'x''y')", "x'y"),
    # the value of an expression over functions that fakesnow rewrites
    ("expr-regexp-substr", "regexp_substr('year 2024', '[0-9]+')", "2024"),
    ("expr-regexp-replace", "regexp_replace('a-b', '-', '+')", "a+b"),
    ("expr-upper", "upper('abc')", "ABC"),
    ("expr-trim", "trim('  x ')", "x"),
    ("expr-dateadd", "dateadd(day, 1, '2020-01-01'::date)", datetime.date(2020, 1, 2)),
    ("expr-to-decimal", "to_decimal('1.5', 10, 2)", decimal.Decimal("1.50")),
    ("expr-json-path", "parse_json('{\"a\": 7}'):a::int", 7),
]

POSITIONS = ["bare", "alias", "where", "subquery", "arith", "insert", "twice", "minus", "negate", "concat"]

LITERALS = [
    ("squote-ref", "SELECT '$v1'", "$v1"),
    ("squote-num", "SELECT 'cost: $5'", "cost: $5"),
    ("squote-end", "SELECT 'a$'", "a$"),
    ("squote-unknown", "SELECT '$nosuchvar'", "$nosuchvar"),
    ("dollar-quoted", "SELECT $$a $v1 b$$", "a $v1 b"),
    ("squote-mid", "SELECT 'x$v10y'", "x$v10y"),
    ("dollar-quoted-multiline", "SELECT $$line one\ncosts $v1 and $nosuchvar\nline three$$", "line one\ncosts $v1 and $nosuchvar\nline three"),
    ("squote-multiline", "SELECT 'first\nsecond $v1\nthird $nosuchvar'", "first\nsecond $v1\nthird $nosuchvar"),
    ("dquote-identifier", 'SELECT 1 AS "cost $v1"', 1),
    ("line-comment", "SELECT 'x' -- it's $nosuchvar here\n", "x"),
    ("dollar-inside-identifier", "SELECT 5 AS col$v1", 5),
    ("dollar-inside-identifier-undefined", "SELECT 6 AS amt$nosuchvar", 6),
    ("dollar-inside-column-name", "SELECT t.c$v1 FROM (SELECT 8 AS c$v1) t", 8),
    ("block-comment", "SELECT /* don't $nosuchvar */ 'y'", "y"),
]


def gen_cases(tier: str, seed: int):
    r = random.Random(f"{seed}:C15")
    n = 3000 if tier == "quick" else 40000
    for _ in range(n):
        pool = r.sample(NAMES, r.randint(2, 6))
        if r.random() < 0.6:
            pool = list(dict.fromkeys(pool + r.sample(["v", "v1", "v10", "v1x"], 2)))
        steps = []
        for _ in range(r.randint(4, 14)):
            x = r.random()
            conn, cur = r.randint(0, 1), r.randint(0, 1)
            if x < 0.35:
                vi = r.randrange(len(VALUES))
                nm = r.choice(pool)
                spell = r.choice([nm, nm.upper(), nm.lower()])
                steps.append(["set", conn, cur, spell, vi, r.choice(["SET", "set", "Set"])])
            elif x < 0.45:
                nm = r.choice(pool)
                steps.append(["unset", conn, cur, r.choice([nm, nm.upper(), nm.lower()])])
            elif x < 0.47:
                nm = r.choice(pool)
                a, b = r.sample(range(len(VALUES)), 2)
                steps.append(["set_flip", conn, cur, nm, a, b])
            elif x < 0.50:
                nm = r.choice(pool)
                steps.append(["script_set_use", conn, cur, r.choice([nm, nm.upper(), nm.lower()]), r.randrange(len(VALUES))])
            elif x < 0.58:
                nm = r.choice(pool)
                steps.append(["use_with_params", conn, cur, r.choice([nm, nm.upper(), nm.lower()]), r.choice(["execute", "executemany"])])
            elif x < 0.8:
                nm = r.choice(pool)
                steps.append(["use", conn, cur, r.choice([nm, nm.upper(), nm.lower()]), r.choice(POSITIONS)])
            elif x < 0.93:
                steps.append(["literal", conn, cur, r.randrange(len(LITERALS))])
            elif x < 0.97:
                steps.append(["undefined", conn, cur, r.choice(["nosuch", "zz9", "v1_undefined"])])
            else:
                steps.append(["undefined_between_bound_strings", conn, cur, r.choice(["nosuch", "zz9"]),
                              r.choice([["a'b", "c'd"], ["it's", "x'"], ["\\'", "q'q"], ["plain", "o'k"], ["a''b", "'"]])])
        yield {"steps": steps, "threaded": r.random() < 0.3}


_state: dict[str, Any] = {}


def setup_worker(env: core.Env) -> None:
    _state["fs"] = core.new_fs()
    cur = _state["fs"].connect("db1", "s1").cursor()
    cur.execute("CREATE TABLE PRICES (P NUMBER(10,2), D DATE, TS TIMESTAMP_NTZ)")
    cur.execute("INSERT INTO PRICES VALUES (9.50, '2024-01-02', '2024-01-02 03:04:05'), (1.25, '2023-01-01', '2023-01-01 00:00:00')")


def _fresh(fs: Any) -> tuple[list, list]:
    conns = [fs.connect("db1", "s1") for _ in range(2)]
    curs = [[c.cursor(), c.cursor()] for c in conns]
    return conns, curs


def _use_sql(name: str, pos: str) -> tuple[str, Any]:
    ref = f"${name}"
    if pos == "bare":
        return f"SELECT {ref}", lambda v: [(v,)]
    if pos == "alias":
        return f"SELECT {ref} AS c, 1 AS d", lambda v: [(v, 1)]
    if pos == "where":
        return f"SELECT 7 WHERE {ref} = {ref}", lambda v: [(7,)]
    if pos == "subquery":
        return f"SELECT x FROM (SELECT {ref} AS x) WHERE x = {ref}", lambda v: [(v,)]
    if pos == "arith":
        return f"SELECT {ref} * 2", lambda v: [(v * 2,)] if isinstance(v, (int, decimal.Decimal)) else None
    if pos == "minus":
        return f"SELECT 10-{ref}", lambda v: [(10 - v,)] if isinstance(v, (int, decimal.Decimal)) else None
    if pos == "negate":
        return f"SELECT -{ref}", lambda v: [(-v,)] if isinstance(v, (int, decimal.Decimal)) else None
    if pos == "concat":
        return f"SELECT 'a'||{ref}||'b'", lambda v: [("a" + v + "b",)] if isinstance(v, str) else None
    if pos == "twice":
        return f"SELECT {ref}, {ref}", lambda v: [(v, v)]
    if pos == "insert":
        return f"INSERT INTO VT VALUES ({ref})", None
    raise ValueError(pos)


def run_case(case: dict, env: core.Env) -> None:
    fs = _state["fs"]
    conns, curs = _fresh(fs)
    curs[0][0].execute("CREATE OR REPLACE TABLE VT (X VARCHAR)")
    model: list[dict] = [{}, {}]
    last_use: list[dict] = [{}, {}]
    compared = 0
    max_defined = 0

    def wedge_probe(ci: int, ki: int, after: str, vcls: str) -> bool:
        o = core.run_stmt(curs[ci][ki], "SELECT 1")
        if not o["ok"] or o["rows"] != [(1,)]:
            env.witness(f"C15/wedged/after-{after}/{vcls}", f"SELECT 1 after {after}: {o.get('exc') or o.get('rows')}")
            return True
        return False

    threaded = bool(case.get("threaded"))

    class _ThreadCursor:
        """Every statement through a cursor made and used in a helper thread of its own (the connection owns the variables)."""

        def __init__(self, conn: Any) -> None:
            self._conn = conn
            self._last: Any = None

        def execute(self, sql: str, params: Any = None) -> Any:
            import threading

            box: list = []

            def work() -> None:
                try:
                    k = self._conn.cursor()
                    k.execute(sql, params) if params is not None else k.execute(sql)
                    box.append(("ok", k))
                except BaseException as e:  # noqa: BLE001
                    box.append(("exc", e))

            th = threading.Thread(target=work)
            th.start()
            th.join(60)
            if not box:
                raise core.Inconclusive("helper thread did not finish")
            if box[0][0] == "exc":
                raise box[0][1]
            self._last = box[0][1]
            return self._last

        def __getattr__(self, name: str) -> Any:
            return getattr(self._last if self._last is not None else self._conn.cursor(), name)

    if threaded:
        env.count("threaded_cases")
        for ci_ in range(2):
            curs[ci_][1] = _ThreadCursor(conns[ci_])

    for step in case["steps"]:
        kind, ci, ki = step[0], step[1], step[2]
        cur = curs[ci][ki]
        env.cover("step", kind)
        if kind == "set":
            name, (vcls, vsql, vpy), kw = step[3], VALUES[step[4]], step[5]
            out = core.run_stmt(cur, f"{kw} {name} = {vsql}")
            env.cover("value_class", vcls)
            if not out["ok"]:
                env.witness(f"C15/set/rejected/{vcls}/{out['exc']['cls']}", f"SET {name} = {vsql}: {out['exc']}")
                return
            model[ci][name.upper()] = (vcls, vpy)
            max_defined = max(max_defined, len(model[ci]))
            if wedge_probe(ci, ki, "set", vcls):
                return
        elif kind == "unset":
            name = step[3]
            defined = name.upper() in model[ci]
            out = core.run_stmt(cur, f"UNSET {name}")
            env.count("cmp_unset")
            if not out["ok"]:
                env.witness(
                    f"C15/unset/{'defined' if defined else 'undefined'}/{out['exc']['kind']}-{out['exc']['cls']}",
                    f"UNSET {name}: {out['exc']}",
                )
                if out["exc"]["kind"] == "internal" and not defined:
                    continue  # state unchanged; keep going to look for other mechanisms
                return
            model[ci].pop(name.upper(), None)
            if wedge_probe(ci, ki, "unset", "-"):
                return
            # the very statement text that worked while the variable was defined must now be refused
            again = last_use[ci].pop(name.upper(), None)
            if again is not None and defined:
                calls0 = tap.CALLS
                o2 = core.run_stmt(curs[ci][1 - ki], again[0])
                env.count("cmp_undefined")
                env.count("cmp_same_text_after_unset")
                _check_undefined(env, o2, again[1], tap.CALLS - calls0, "same-text-as-before-unset")
        elif kind == "use":
            name, pos = step[3], step[4]
            sql, expf = _use_sql(name, pos)
            defined = model[ci].get(name.upper())
            others = [n for n in model[ci] if n != name.upper()]
            prefix_defined = any(name.upper().startswith(n) for n in others)
            longer_defined = any(n.startswith(name.upper()) for n in others)
            pf = "prefix-of-name-defined" if prefix_defined else ("longer-name-defined" if longer_defined else "no-related-name")
            calls0 = tap.CALLS
            out = core.run_stmt(cur, sql)
            if defined is None:
                env.count("cmp_undefined")
                _check_undefined(env, out, name, tap.CALLS - calls0, pf)
                continue
            vcls, vpy = defined
            env.cover("use_position_x_value", f"{pos}/{vcls}")
            if prefix_defined:
                env.count("cmp_prefix_use")
            if pos == "insert":
                if out["ok"]:
                    got = curs[ci][ki].execute("SELECT X FROM VT").fetchall()
                    curs[ci][ki].execute("DELETE FROM VT")
                    exp = [(str(vpy),)]
                    env.count("cmp_use")
                    compared += 1
                    if got != exp:
                        env.witness(f"C15/use/wrong-value/{vcls}/{pos}/{pf}", f"{sql} stored {got} expected {exp}; vars={model[ci]}")
                        return
                else:
                    env.witness(f"C15/use/error-{out['exc']['cls']}/{vcls}/{pos}/{pf}", f"{sql}: {out['exc']}; vars={model[ci]}")
                    return
                continue
            exp = expf(vpy)
            if exp is None:
                continue  # arithmetic on a string: outcome not pinned down
            env.count("cmp_use")
            compared += 1
            if not out["ok"]:
                env.witness(f"C15/use/error-{out['exc']['cls']}/{vcls}/{pos}/{pf}", f"{sql}: {out['exc']}; vars={model[ci]}")
                if wedge_probe(ci, ki, "use", vcls):
                    return
                return
            got = [tuple(x) for x in out["rows"]]
            if got != exp or [type(a) for a in got[0]] != [type(a) for a in exp[0]]:
                env.witness(f"C15/use/wrong-value/{vcls}/{pos}/{pf}", f"{sql} -> {got} expected {exp}; vars={model[ci]}")
                return
            last_use[ci][name.upper()] = (sql, name)
            # the other connection must not see it unless it defined the same name itself
            oc = 1 - ci
            if name.upper() not in model[oc]:
                env.count("cmp_other_conn")
                o2 = core.run_stmt(curs[oc][ki], f"SELECT ${name}")
                if o2["ok"]:
                    env.witness("C15/other-connection-sees-variable", f"conn {oc} SELECT ${name} -> {o2['rows']}")
                    return
        elif kind == "set_flip":
            # SET to a, to b, and to a again with the very text of the first statement: the last SET counts
            name, (ca_, sa, pa), (cb_, sb, pb) = step[3], VALUES[step[4]], VALUES[step[5]]
            first = f"SET {name} = {sa}"
            for stmt in (first, f"SET {name} = {sb}", first):
                o = core.run_stmt(cur, stmt)
                if not o["ok"]:
                    env.witness(f"C15/set/rejected/{ca_}/{o['exc']['cls']}", f"{stmt}: {o['exc']}")
                    return
            model[ci][name.upper()] = (ca_, pa)
            max_defined = max(max_defined, len(model[ci]))
            o = core.run_stmt(curs[ci][1 - ki], f"SELECT ${name}")
            env.count("cmp_use")
            compared += 1
            if not o["ok"] or o["rows"] != [(pa,)]:
                env.witness(f"C15/use/wrong-value/{ca_}/after-same-set-text-again", f"{first}; SET .. = {sb}; {first}; SELECT ${name} -> {o.get('rows') or o.get('exc')} expected {pa!r}")
                return
        elif kind == "script_set_use":
            # a script that defines a variable and uses it further down: statements run (and resolve variables) in order
            name, (vcls, vsql, vpy) = step[3], VALUES[step[4]]
            script = f"SET {name} = {vsql};\nSELECT ${name} AS X;"
            env.count("cmp_use")
            try:
                cs = list(conns[ci].execute_string(script))
                got = [tuple(x) for x in cs[-1].fetchall()]
            except Exception as e:  # noqa: BLE001
                env.witness(f"C15/script-set-then-use/error-{type(e).__name__}/{vcls}", f"{script!r}: {e}"[:400])
                return
            model[ci][name.upper()] = (vcls, vpy)
            max_defined = max(max_defined, len(model[ci]))
            compared += 1
            if got != [(vpy,)] or type(got[0][0]) is not type(vpy):
                env.witness(f"C15/script-set-then-use/wrong-value/{vcls}", f"{script!r} -> {got} expected {[(vpy,)]}")
                return
        elif kind == "use_with_params":
            # a variable next to bound parameters (the connection's default pyformat style)
            name, how = step[3], step[4]
            defined = model[ci].get(name.upper())
            if defined is None:
                continue
            vcls, vpy = defined
            env.cover("use_position_x_value", f"params-{how}/{vcls}")
            env.count("cmp_use")
            compared += 1
            try:
                if how == "execute":
                    got = [tuple(x) for x in cur.execute(f"SELECT ${name} AS V, %s AS P, %s AS Q", ("p%s", 3)).fetchall()]
                    exp = [(vpy, "p%s", 3)]
                else:
                    cur.execute("CREATE OR REPLACE TABLE VT2 (N INT, P VARCHAR, X VARCHAR)")
                    cur.executemany(f"INSERT INTO VT2 SELECT %s, %s, ${name}", [(1, "a%"), (2, "b")])
                    got = sorted(tuple(x) for x in cur.execute("SELECT N, P, X FROM VT2").fetchall())
                    exp = [(1, "a%", str(vpy)), (2, "b", str(vpy))]
            except Exception as e:  # noqa: BLE001
                env.witness(f"C15/use/error-{type(e).__name__}/{vcls}/params-{how}", f"${name} = {vpy!r} with bound parameters: {e}"[:400])
                return
            if got != exp:
                env.witness(f"C15/use/wrong-value/{vcls}/params-{how}", f"${name} = {vpy!r} with bound parameters -> {got} expected {exp}")
                return
        elif kind == "literal":
            lk, sql, exp = LITERALS[step[3]]
            state = "v1-defined" if "V1" in model[ci] else "v1-undefined"
            out = core.run_stmt(cur, sql)
            env.count("cmp_literal")
            env.cover("literal", f"{lk}/{state}")
            compared += 1
            if not out["ok"]:
                env.witness(f"C15/literal/{lk}/error-{out['exc']['cls']}/{state}", f"{sql}: {out['exc']}")
            elif out["rows"] != [(exp,)]:
                env.witness(f"C15/literal/{lk}/rewritten/{state}", f"{sql} -> {out['rows']} expected {[(exp,)]}")
        elif kind == "undefined_between_bound_strings":
            # an undefined variable is refused wherever it stands, also between bound strings that contain quotes
            name, (p1, p2) = step[3], step[4]
            if name.upper() in model[ci]:
                continue
            calls0 = tap.CALLS
            try:
                cur.execute(f"SELECT %s AS A, ${name} AS V, %s AS B", (p1, p2))
                out = {"ok": True, "rows": cur.fetchall()}
            except Exception as e:  # noqa: BLE001
                out = {"ok": False, "exc": core.exc_info(e)}
            env.count("cmp_undefined")
            _check_undefined(env, out, name, tap.CALLS - calls0, "between-bound-strings-with-quotes")
        elif kind == "undefined":
            name = step[3]
            if name.upper() in model[ci]:
                continue
            calls0 = tap.CALLS
            out = core.run_stmt(cur, f"SELECT ${name}")
            env.count("cmp_undefined")
            others = list(model[ci])
            pf = "prefix-of-name-defined" if any(name.upper().startswith(n) for n in others) else "no-related-name"
            _check_undefined(env, out, name, tap.CALLS - calls0, pf)
    if compared and max_defined >= 2:
        env.nontrivial(case)


def _check_undefined(env: core.Env, out: dict, name: str, engine_calls: int, pf: str) -> None:
    if out["ok"]:
        env.witness(f"C15/undefined/answered/{pf}", f"SELECT ${name} (undefined) -> {out['rows']}")
        return
    e = out["exc"]
    if e["cls"] != "ProgrammingError" or e["kind"] != "snowflake":
        env.witness(f"C15/undefined/wrong-exception/{e['cls']}/{pf}", str(e))
        return
    want = f"Session variable '${name.upper()}' does not exist"
    if want.lower() not in (e.get("rawmsg") or e["msg"]).lower():
        env.witness(f"C15/undefined/wrong-message/{pf}", f"{e['msg']!r} expected to contain {want!r}")
        return
    if engine_calls:
        env.witness("C15/undefined/engine-called", f"{engine_calls} engine calls for an undefined reference")
