"""C09 Metadata views always describe exactly the current user objects.

Monitor: CatalogModel (most recently declared Snowflake metadata per live object) run beside
generated DDL histories over 2 databases x 2-3 schemas; after every step every observer
(information_schema.*, DESCRIBE, SHOW ... in every scope, description of SELECT *) is
compared with the model's projection."""

from __future__ import annotations

import copy
import random
from typing import Any

from fsverif import core

ID = "C09"
LEVEL = "exploration"
BUDGET = {"quick": 80, "thorough": 600}
RULE = (
    "case = DDL history (<=15 steps quick, <=30 thorough) of CREATE [OR REPLACE] TABLE/VIEW, CTAS, CLONE, ALTER TABLE ADD/DROP/"
    "RENAME COLUMN, RENAME TO, SET COMMENT, COMMENT ON, DROP and re-CREATE with a different shape over DB1.{S1,S2}, DB2.{S1}; "
    "after every step a sweep of ~14 observers from account/database/schema/table scope. Non-trivial = at least one step "
    "re-used a name that existed before (drop/re-create, replace, rename) or altered an object, and all observers were "
    "compared; distinct = distinct histories."
)
REQUIRED = ["cmp_is_tables", "cmp_is_columns", "cmp_is_views", "cmp_is_databases", "cmp_describe", "cmp_show_tables", "cmp_show_objects",
            "cmp_show_schemas", "cmp_show_pk", "cmp_select_star", "reused_names"]
ASSUMPTIONS = [
    "objects are created with fully qualified names from one connection whose context is DB1.S1; observers run from a second "
    "connection with its own context",
    "SHOW SCHEMAS may list INFORMATION_SCHEMA next to the user's schemas (Snowflake does)",
]

# declared type -> (information_schema data_type, describe type, numeric precision, scale, char length, type_code)
TYPES = {
    "INT": ("NUMBER", "NUMBER(38,0)", 38, 0, None, 0),
    "NUMBER": ("NUMBER", "NUMBER(38,0)", 38, 0, None, 0),
    "BIGINT": ("NUMBER", "NUMBER(38,0)", 38, 0, None, 0),
    # a precision without a scale, and an explicit scale of 0: the declared precision is what the views report
    "NUMBER(10)": ("NUMBER", "NUMBER(10,0)", 10, 0, None, 0),
    "DECIMAL(18)": ("NUMBER", "NUMBER(18,0)", 18, 0, None, 0),
    "NUMERIC(1)": ("NUMBER", "NUMBER(1,0)", 1, 0, None, 0),
    "NUMBER(9,0)": ("NUMBER", "NUMBER(9,0)", 9, 0, None, 0),
    "NUMBER(10,2)": ("NUMBER", "NUMBER(10,2)", 10, 2, None, 0),
    "NUMBER(20,5)": ("NUMBER", "NUMBER(20,5)", 20, 5, None, 0),
    "NUMBER(30,15)": ("NUMBER", "NUMBER(30,15)", 30, 15, None, 0),
    "NUMBER(38,18)": ("NUMBER", "NUMBER(38,18)", 38, 18, None, 0),
    "FLOAT": ("FLOAT", "FLOAT", None, None, None, 1),
    "VARCHAR": ("TEXT", "VARCHAR(16777216)", None, None, 16777216, 2),
    "VARCHAR(10)": ("TEXT", "VARCHAR(10)", None, None, 10, 2),
    "VARCHAR(255)": ("TEXT", "VARCHAR(255)", None, None, 255, 2),
    "VARCHAR(300)": ("TEXT", "VARCHAR(300)", None, None, 300, 2),
    "STRING": ("TEXT", "VARCHAR(16777216)", None, None, 16777216, 2),
    "BOOLEAN": ("BOOLEAN", "BOOLEAN", None, None, None, 13),
    "DATE": ("DATE", "DATE", None, None, None, 3),
    "TIMESTAMP_NTZ": ("TIMESTAMP_NTZ", "TIMESTAMP_NTZ(9)", None, None, None, 8),
    "TIMESTAMP_TZ": ("TIMESTAMP_TZ", "TIMESTAMP_TZ(9)", None, None, None, 7),
    "VARIANT": ("VARIANT", "VARIANT", None, None, None, 5),
    "BINARY": ("BINARY", "BINARY(8388608)", None, None, None, 11),
    "TIME": ("TIME", "TIME(9)", None, None, None, 12),
}
TNAMES = list(TYPES)
SCHEMAS = [("DB1", "S1"), ("DB1", "S2"), ("DB2", "S1"), ("DB1", "Mixed")]


def _qp(part: str) -> str:
    """A name part as SQL: quoted when it is not what an unquoted identifier folds to."""
    return part if part == part.upper() else f'"{part}"'


def _fqn(k: tuple) -> str:
    return ".".join(_qp(p) for p in k)
TABS = ["T1", "T2", "T3", "ofs_t"]  # the last one is a quoted lower-case name that only *looks* like an internal table (_fs_..)
COLN = ["A", "B", "C", "D", "E"]


def _cols(r: random.Random) -> list:
    n = r.randint(1, 4)
    names = r.sample(COLN, n)
    return [[c, r.choice(TNAMES), r.random() < 0.2] for c in names]  # name, type, not null


def gen_cases(tier: str, seed: int):
    r = random.Random(f"{seed}:C09")
    n, maxsteps = (150, 15) if tier == "quick" else (1000, 30)
    # fixed histories on every run: the same column / table name declared again with another length, type or comment
    for (db, sc), t in ((("DB1", "S1"), "T1"), (("DB2", "S1"), "T2")):
        base = ["create_table", db, sc, t, [["A", "VARCHAR(10)", False], ["B", "VARCHAR(255)", False], ["C", "INT", False]], "c1", False, False, False]
        yield {"steps": [base, ["drop_column", db, sc, t, "A"], ["add_column", db, sc, t, "A", "VARCHAR(255)"],
                         ["drop_column", db, sc, t, "B"], ["add_column", db, sc, t, "B", "INT"], ["add_column", db, sc, t, "D", "VARCHAR(10)"],
                         ["rename_column", db, sc, t, "D", "G"], ["add_column", db, sc, t, "D", "VARCHAR"]]}
        yield {"steps": [base, ["drop_table", db, sc, t],
                         ["create_table", db, sc, t, [["A", "VARCHAR(255)", False], ["B", "VARCHAR", False], ["N", "INT", False]], None, False, False, True],
                         ["create_table", db, sc, t, [["A", "VARCHAR(10)", False], ["Z", "VARCHAR(10)", False]], "c2", False, False, True],
                         ["create_table", db, sc, t, [["A", "INT", False], ["B", "VARCHAR(10)", False]], None, True, False, False],
                         ["comment_on", db, sc, t, "new"], ["drop_table", db, sc, t],
                         ["create_table", db, sc, t, [["A", "VARCHAR", False]], None, False, False, False]]}
    # user tables whose names resemble the internal ones are user tables: listed everywhere, with their keys
    yield {"steps": [["create_table", "DB2", "S1", "ofs_t", [["A", "INT", False], ["B", "VARCHAR(10)", False]], "looks internal", False, True, False],
                     ["create_table", "DB2", "S1", "T1", [["A", "INT", False]], None, False, True, False],
                     ["create_table", "DB1", "S2", "ofs_t", [["A", "VARCHAR(255)", False]], None, False, True, False],
                     ["comment_on", "DB2", "S1", "ofs_t", "new"], ["add_column", "DB2", "S1", "ofs_t", "C", "VARCHAR(10)"]]}
    yield {"steps": [["create_table", "DB1", "S2", "T1", [["A", "VARCHAR(10)", False]], "a table", False, False, False], ["create_view", "DB1", "S2", "V1", "T1"],
                     ["comment_on_view", "DB1", "S2", "V1", "about a view"], ["create_view", "DB1", "S2", "V2", "T1"], ["comment_on_view", "DB1", "S2", "V1", "other"],
                     ["drop_view", "DB1", "S2", "V1"], ["create_view", "DB1", "S2", "V1", "T1"]]}
    wide = [["A", "VARCHAR(10)", False], ["B", "VARCHAR(255)", False], ["N", "NUMBER(10)", False]]
    for again in (["create_table", "DB1", "S2", "T1", [["A", "VARCHAR", False], ["N", "INT", False]], None, False, False, False],
                  ["ctas", "DB1", "S2", "T1", "DB1", "S1", "T2", False], ["clone", "DB1", "S2", "T1", "DB1", "S1", "T2", False]):
        src = ["create_table", "DB1", "S1", "T2", [["A", "VARCHAR", False], ["B", "VARCHAR", False]], None, False, False, False]
        yield {"steps": [src, ["create_table", "DB1", "S2", "T1", wide, "first holder of the name", False, False, False],
                         ["rename_table", "DB1", "S2", "T1", "T9"], again, ["drop_table", "DB1", "S2", "T1"], again]}
        yield {"steps": [src, ["create_table", "DB1", "S2", "T1", wide, "first holder of the name", False, False, False],
                         ["recreate_schema", "DB1", "S2", "-"], again, ["recreate_schema", "DB1", "S2", "-"],
                         ["create_table", "DB1", "S2", "T1", wide, "", False, False, False], ["recreate_schema", "DB1", "S2", "-"], again]}
    yield {"steps": [["create_table", "DB1", "S1", "T1", [["A", "VARCHAR(10)", False]], "c1", False, False, False], ["set_comment", "DB1", "S1", "T1", "old"],
                     ["comment_on", "DB1", "S1", "T1", "new"], ["noop", "DB1", "S1", "T1", "set_var"], ["noop", "DB1", "S1", "T1", "set_tag"],
                     ["create_table", "DB1", "S1", "T1", [["A", "INT", False]], "c2", True, False, False], ["noop", "DB1", "S1", "T1", "cluster_by"],
                     ["create_table", "DB1", "S2", "T1", [["B", "VARCHAR(255)", False]], None, False, False, False], ["noop", "DB1", "S2", "T1", "unset_var"],
                     ["set_comment", "DB1", "S2", "T1", ""], ["noop", "DB1", "S1", "T1", "set_var"], ["comment_on", "DB1", "S1", "T1", ""], ["noop", "DB1", "S1", "T1", "set_var"]]}
    yield {"steps": [["create_table", "DB1", "S1", "T1", [["A", "VARCHAR(10)", False], ["B", "INT", False]], "a table", False, False, False],
                     ["create_table", "DB1", "S1", "T2", [["A", "VARCHAR(255)", False], ["Z", "INT", False]], None, False, False, False],
                     ["add_column", "DB1", "S1", "T2", "A", "VARCHAR(10)", True], ["add_column", "DB1", "S1", "T2", "F", "VARCHAR(10)", True],
                     ["drop_table", "DB1", "S1", "T1"], ["create_view", "DB1", "S1", "T1", "T2"], ["drop_view", "DB1", "S1", "T1"],
                     ["create_table", "DB1", "S1", "T1", [["A", "INT", False]], None, False, False, False]]}
    yield {"steps": [["create_table", "DB1", "S1", "T1", [["A", "VARCHAR(10)", False], ["B", "VARCHAR(255)", False], ["N", "INT", False]], "c", False, False, False],
                     ["alter_type", "DB1", "S1", "T1", "A", "VARCHAR(300)"], ["alter_type", "DB1", "S1", "T1", "B", "VARCHAR"], ["add_column", "DB1", "S1", "T1", "A", "VARCHAR(10)", True],
                     ["create_table", "DB2", "S1", "T1", [["A", "VARCHAR(10)", False]], None, False, False, False], ["alter_type", "DB2", "S1", "T1", "A", "VARCHAR(255)"]]}
    # a quoted mixed-case schema, made current with USE and then worked in with bare names
    yield {"via_use": True,
           "steps": [["create_table", "DB1", "Mixed", "T1", [["A", "VARCHAR(10)", False], ["N", "INT", False]], "in mixed", False, False, False],
                     ["add_column", "DB1", "Mixed", "T1", "B", "VARCHAR(255)"], ["comment_on", "DB1", "Mixed", "T1", "new"],
                     ["create_table", "DB1", "S1", "T1", [["A", "VARCHAR(255)", False]], "in s1", False, False, False],
                     ["create_table", "DB1", "Mixed", "T1", [["A", "VARCHAR(255)", False], ["Z", "INT", False]], "replaced", True, False, False],
                     ["set_comment", "DB1", "Mixed", "T1", "other"], ["rename_table", "DB1", "Mixed", "T1", "T9"], ["drop_table", "DB1", "Mixed", "T9"]]}
    # same table name in three places; the namesakes are dropped / re-created one by one
    cols = [["A", "VARCHAR(10)", False], ["N", "NUMBER(10,2)", False]]
    yield {"steps": [["create_table", "DB1", "S1", "T1", cols, "orders of s1", False, False, False], ["create_table", "DB1", "S2", "T1", [["A", "VARCHAR(255)", False]], "of s2", False, False, False],
                     ["create_table", "DB2", "S1", "T1", [["A", "VARCHAR", False]], "of db2", False, False, False], ["drop_table", "DB1", "S2", "T1"], ["drop_table", "DB2", "S1", "T1"],
                     ["create_table", "DB1", "S2", "T1", [["B", "INT", False]], None, False, False, True], ["failing_drop_other", "DB2", "S1", "T1", cols],
                     ["rename_table", "DB1", "S2", "T1", "T9"], ["create_table", "DB2", "S1", "T1", [["A", "VARCHAR(255)", False]], None, False, False, False],
                     ["drop_table", "DB2", "S1", "T1"], ["comment_on", "DB1", "S2", "T9", "moved"], ["drop_table", "DB1", "S2", "T9"]]}
    for _ in range(n):
        steps = []
        for _ in range(r.randint(5, maxsteps)):
            db, sc = r.choice(SCHEMAS)
            t = r.choice(TABS)
            x = r.random()
            if x < 0.28:
                rep = r.random() < 0.3
                steps.append(["create_table", db, sc, t, _cols(r), r.choice([None, None, "c1", "it''s a comment", "c2"]), rep, r.random() < 0.15,
                              (not rep) and r.random() < 0.3])
            elif x < 0.36:
                db2, sc2 = r.choice(SCHEMAS)
                steps.append([r.choice(["ctas", "clone"]), db, sc, t, db2, sc2, r.choice(TABS), r.random() < 0.4])
            elif x < 0.46:
                steps.append(["drop_table", db, sc, t])
            elif x < 0.54:
                steps.append(["add_column", db, sc, t, r.choice(COLN + ["F"]), r.choice(TNAMES), r.random() < 0.35])
            elif x < 0.60:
                c = r.choice(COLN)
                steps.append(["drop_column", db, sc, t, c])
                if r.random() < 0.5:  # the same name comes back with another declaration
                    steps.append(["add_column", db, sc, t, c, r.choice(TNAMES)])
            elif x < 0.63:
                steps.append(["rename_column", db, sc, t, r.choice(COLN), r.choice(COLN + ["G"])])
            elif x < 0.66:
                steps.append(["alter_type", db, sc, t, r.choice(COLN), r.choice(["VARCHAR(255)", "VARCHAR", "VARCHAR(300)"])])
            elif x < 0.74:
                steps.append(["rename_table", db, sc, t, r.choice(TABS + ["T9"])])
            elif x < 0.86:
                steps.append([r.choice(["comment_on", "set_comment"]), db, sc, t, r.choice(["new", "other", ""])])
            elif x < 0.885:
                steps.append(["create_view", db, sc, r.choice(["V1", "V2"] + TABS), r.choice(TABS)])
                if r.random() < 0.5:
                    steps.append(["comment_on_view", db, sc, steps[-1][3], r.choice(["about a view", "other", ""])])
            elif x < 0.90:
                # the schema goes (with everything in it) and comes back; a name of it is used again straight away
                steps.append(["recreate_schema", db, sc, "-"])
                steps.append(["create_table", db, sc, t, _cols(r), None, False, False, False])
            elif x < 0.93:
                steps.append([r.choice(["failing_create", "failing_ctas", "failing_drop_other"]), db, sc, t, _cols(r)])
            elif x < 0.96:
                steps.append(["noop", db, sc, t, r.choice(["set_var", "set_tag", "cluster_by", "unset_var"])])
            else:
                steps.append(["drop_view", db, sc, r.choice(["V1", "V2"] + TABS)])
        yield {"steps": steps, "via_use": r.random() < 0.35}


def setup_worker(env: core.Env) -> None:
    pass


def run_case(case: dict, env: core.Env) -> None:
    fs = core.new_fs()
    try:
        _run(case, env, fs)
    finally:
        fs.duck_conn.close()


def _run(case: dict, env: core.Env, fs: Any) -> None:
    conn = fs.connect("db1", "s1")
    cur = conn.cursor()
    for s in ("CREATE SCHEMA DB1.S2", "CREATE DATABASE DB2", "CREATE SCHEMA DB2.S1"):
        cur.execute(s)
    cur.execute('CREATE SCHEMA DB1."Mixed"')
    obs = fs.connect("db2", "s1")  # observers run from another context
    ucon = fs.connect("db1", "s2")
    ucon_at: list = [("DB1", "S2")]
    model: dict[tuple, dict] = {}  # (db, sc, name) -> {"kind", "cols": [[name, type, notnull, charlen-override]], "comment", "pk"}
    ever: set = set()
    former: dict[tuple, dict] = {}  # name -> what objects that held the name earlier declared: {"lengths": {col: {n}}, "comments": {c}}
    reused = False
    altered = False

    def leaves(k: tuple) -> None:
        """The object under name k goes away (dropped, replaced, renamed away, schema dropped): remember what it declared."""
        o = model.get(k)
        if o is None:
            return
        f = former.setdefault(k, {"lengths": {}, "comments": set()})
        for cdef in o["cols"]:
            n = TYPES[cdef[1]][4]
            if n is not None and n != 16777216:
                f["lengths"].setdefault(cdef[0], set()).add(n)
        if o.get("comment"):
            f["comments"].add(o["comment"].replace("''", "'"))

    for si, st in enumerate(case["steps"]):
        op = st[0]
        sql = None
        key = (st[1], st[2], st[3])
        fq = _fqn(key)
        cur = conn.cursor()
        if case.get("via_use"):
            # the same statement from a session that made the schema current and names the table by its bare name
            ucur = ucon.cursor()
            if ucon_at[0] != (st[1], st[2]):
                ucur.execute(f"USE SCHEMA {st[1]}.{_qp(st[2])}")
                ucon_at[0] = (st[1], st[2])
            cur, fq = ucur, _qp(st[3])
            env.count("unqualified_after_use")
        exists = key in model
        after: Any = None
        if op == "create_table":
            _, db, sc, t, cols, comment, replace, pk = st[:8]
            ine = len(st) > 8 and st[8]
            if exists and ine and model[key]["kind"] == "table":
                # CREATE TABLE IF NOT EXISTS over an existing table: a no-op, whatever it declares
                coldefs = ", ".join(f"{c} {ty}" for c, ty, _ in cols)
                sql = f"CREATE TABLE IF NOT EXISTS {fq} ({coldefs})" + (f" COMMENT = '{comment}'" if comment is not None else "")
                env.cover("op", "create_table_if_not_exists/exists")
                out = core.run_stmt(cur, sql)
                if not out["ok"]:
                    env.witness(f"C09/rejected/create_table_if_not_exists/{out['exc']['cls']}", f"{sql}: {out['exc']}"[:600])
                    return
                _observe(env, {"DB1": conn, "DB2": obs}, model, f"step {si} {sql!r} (no-op)", "create_table_if_not_exists")
                altered = True
                continue
            if exists and not replace:
                continue
            if exists and (model[key]["kind"] == "view" or _has_view_on(model, key)):
                continue
            coldefs = ", ".join(f"{c} {ty}{' NOT NULL' if nn else ''}" for c, ty, nn in cols)
            if pk:
                coldefs = coldefs.replace(f"{cols[0][0]} {cols[0][1]}", f"{cols[0][0]} {cols[0][1]} PRIMARY KEY", 1)
            sql = f"CREATE {'OR REPLACE ' if replace else ''}TABLE {'IF NOT EXISTS ' if ine else ''}{fq} ({coldefs})" + (f" COMMENT = '{comment}'" if comment is not None else "")
            after = {"kind": "table", "cols": [[c, ty, bool(nn) or (pk and i == 0)] for i, (c, ty, nn) in enumerate(cols)],
                     "comment": comment.replace("''", "'") if comment is not None else None, "pk": cols[0][0] if pk else None}
        elif op in ("ctas", "clone"):
            _, db, sc, t, db2, sc2, t2, replace = st
            src = (db2, sc2, t2)
            if src not in model or model[src]["kind"] != "table" or src == key:
                continue
            if exists and (not replace or model[key]["kind"] == "view" or _has_view_on(model, key)):
                continue
            rep = "OR REPLACE " if replace else ""
            sql = f"CREATE {rep}TABLE {fq} AS SELECT * FROM {_fqn(src)}" if op == "ctas" else f"CREATE {rep}TABLE {fq} CLONE {_fqn(src)}"
            after = {"kind": "table", "cols": [[c, ty, False] for c, ty, _ in model[src]["cols"]], "comment": None, "pk": None, "tags": {"ctas"}}
            if op == "clone":
                after["comment"] = model[src]["comment"]
                after["cols"] = copy.deepcopy(model[src]["cols"])
                after["tags"] = {"cloned"}
        elif op == "drop_table":
            if not exists or model[key]["kind"] != "table" or _has_view_on(model, key):
                continue
            sql = f"DROP TABLE {fq}"
        elif op == "add_column":
            _, db, sc, t, c, ty = st[:6]
            ine = len(st) > 6 and st[6]
            if not exists or model[key]["kind"] != "table" or _has_view_on(model, key):
                continue
            if any(x[0] == c for x in model[key]["cols"]):
                if not ine:
                    continue
                # ADD COLUMN IF NOT EXISTS over an existing column: a no-op, whatever it declares
                sql = f"ALTER TABLE {fq} ADD COLUMN IF NOT EXISTS {c} {ty}"
                env.cover("op", "add_column_if_not_exists/exists")
                out = core.run_stmt(cur, sql)
                if not out["ok"]:
                    env.count("noop_statement_rejected")
                    continue
                _observe(env, {"DB1": conn, "DB2": obs}, model, f"step {si} {sql!r} (no-op)", "add_column_if_not_exists")
                altered = True
                continue
            sql = f"ALTER TABLE {fq} ADD COLUMN {'IF NOT EXISTS ' if ine else ''}{c} {ty}"
        elif op == "drop_column":
            c = st[4]
            if not exists or model[key]["kind"] != "table" or not any(x[0] == c for x in model[key]["cols"]) or len(model[key]["cols"]) < 2:
                continue
            if model[key]["pk"] == c or _has_view_on(model, key):
                continue
            sql = f"ALTER TABLE {fq} DROP COLUMN {c}"
        elif op == "alter_type":
            # a text column widened in place
            c, ty = st[4], st[5]
            col = next((x for x in model[key]["cols"] if x[0] == c), None) if exists and model[key]["kind"] == "table" else None
            if col is None or not col[1].startswith(("VARCHAR", "STRING")) or _has_view_on(model, key) or model[key]["pk"] == c:
                continue
            sql = f"ALTER TABLE {fq} ALTER COLUMN {c} SET DATA TYPE {ty}"
        elif op == "rename_column":
            c, c2 = st[4], st[5]
            if not exists or model[key]["kind"] != "table" or not any(x[0] == c for x in model[key]["cols"]) or any(x[0] == c2 for x in model[key]["cols"]):
                continue
            if model[key]["pk"] == c or _has_view_on(model, key):
                continue
            sql = f"ALTER TABLE {fq} RENAME COLUMN {c} TO {c2}"
        elif op == "rename_table":
            t2 = st[4]
            k2 = (st[1], st[2], t2)
            if not exists or model[key]["kind"] != "table" or k2 in model or _has_view_on(model, key):
                continue
            sql = f"ALTER TABLE {fq} RENAME TO {_qp(t2) if case.get('via_use') else _fqn(k2)}"
        elif op in ("comment_on", "set_comment"):
            if not exists or model[key]["kind"] != "table":
                continue
            cm = st[4]
            sql = f"COMMENT ON TABLE {fq} IS '{cm}'" if op == "comment_on" else f"ALTER TABLE {fq} SET COMMENT = '{cm}'"
        elif op == "comment_on_view":
            if not exists or model[key]["kind"] != "view" or not case.get("via_use"):
                # (sqlglot does not parse a qualified name after COMMENT ON VIEW: the statement is only written with the bare name)
                if not exists or model[key]["kind"] != "view":
                    continue
                # from the session that made the view's schema current
                ucur2 = ucon.cursor()
                if ucon_at[0] != (st[1], st[2]):
                    ucur2.execute(f"USE SCHEMA {st[1]}.{_qp(st[2])}")
                    ucon_at[0] = (st[1], st[2])
                cur = ucur2
            sql = f"COMMENT ON VIEW {_qp(st[3])} IS '{st[4]}'"
        elif op == "create_view":
            _, db, sc, v, t = st
            src = (db, sc, t)
            if exists or src not in model or model[src]["kind"] != "table":
                continue
            sql = f"CREATE VIEW {fq} AS SELECT * FROM {_fqn(src)}"
            after = {"kind": "view", "cols": [[c, ty, False] for c, ty, _ in model[src]["cols"]], "comment": None, "pk": None, "on": src}
        elif op == "drop_view":
            if not exists or model[key]["kind"] != "view":
                continue
            sql = f"DROP VIEW {fq}"
        if op == "recreate_schema":
            if case.get("via_use") or (st[1], st[2]) in (("DB1", "S1"), ("DB2", "S1")):
                continue  # schemas some session of this harness stands in stay
            scq = f"{st[1]}.{_qp(st[2])}"
            for q in (f"DROP SCHEMA {scq}", f"CREATE SCHEMA {scq}"):
                out = core.run_stmt(cur, q)
                if not out["ok"]:
                    env.witness(f"C09/rejected/{op}/{out['exc']['cls']}", f"{q}: {out['exc']}"[:600])
                    return
            for k in [k for k in model if k[:2] == (st[1], st[2])]:
                leaves(k)
                del model[k]
            env.cover("op", op)
            _observe(env, {"DB1": conn, "DB2": obs}, model, f"step {si} DROP SCHEMA {scq}; CREATE SCHEMA {scq}", op)
            altered = True
            continue
        if op == "noop":
            # statements that leave every table's metadata alone, whatever ran before them
            how = st[4]
            if how in ("set_tag", "cluster_by") and not (exists and model[key]["kind"] == "table"):
                continue
            c0 = model[key]["cols"][0][0] if exists else "A"
            sql = {"set_var": "SET c09_var = 'x'", "unset_var": "UNSET c09_var", "set_tag": f"ALTER TABLE {fq} SET TAG cost_center = 'sales'",
                   "cluster_by": f"ALTER TABLE {fq} CLUSTER BY ({c0})"}[how]
            env.cover("op", f"noop/{how}")
            out = core.run_stmt(cur, sql)
            if not out["ok"]:
                env.count("noop_statement_rejected")
                continue
            _observe(env, {"DB1": conn, "DB2": obs}, model, f"step {si} {sql!r} (no effect on metadata)", "noop")
            altered = True
            continue
        if op in ("failing_create", "failing_ctas", "failing_drop_other"):
            # statements that fail (or are no-ops) must leave every observer's answer as it was
            if op == "failing_create":
                if not exists:
                    continue
                coldefs = ", ".join(f"{c} {ty}" for c, ty, _ in st[4])
                sql = f"CREATE TABLE {fq} ({coldefs}) COMMENT = 'should not stick'"
            elif op == "failing_ctas":
                if not exists or model[key]["kind"] != "table" or _has_view_on(model, key):
                    continue
                sql = f"CREATE OR REPLACE TABLE {fq} AS SELECT 'oops'::INT AS X"
            else:
                other = next((k2 for k2 in model if k2[2] == st[3] and k2 != key and model[k2]["kind"] == "table"), None)
                if other is None or exists:
                    continue
                sql = f"DROP TABLE IF EXISTS {fq}"  # does not exist here; a namesake lives in another schema
            env.cover("op", op)
            out = core.run_stmt(cur, sql)
            env.count("failing_ddl_steps")
            if op != "failing_drop_other" and out["ok"]:
                env.witness(f"C09/failing-ddl-succeeded/{op}", sql)
                return
            _observe(env, {"DB1": conn, "DB2": obs}, model, f"step {si} {sql!r} (failed/no-op)", op)
            altered = True
            continue
        if sql is None:
            continue
        env.cover("op", op)
        out = core.run_stmt(cur, sql)
        if not out["ok"]:
            env.witness(f"C09/rejected/{op}/{out['exc']['cls']}", f"{sql}: {out['exc']}"[:600])
            return
        # ---- model update
        if op in ("create_table", "ctas", "clone", "create_view"):
            if key in ever:
                reused = True
                env.count("reused_names")
            if exists:
                for vk in [k for k, o in model.items() if o["kind"] == "view" and o.get("on") == key]:
                    pass  # engine keeps views over replaced tables; histories avoid replacing tables with views on them
            leaves(key)
            model[key] = after
            if key in former:
                after["former"] = former[key]
            ever.add(key)
        elif op in ("drop_table", "drop_view"):
            leaves(key)
            del model[key]
        elif op == "add_column":
            model[key]["cols"].append([st[4], st[5], False])
            altered = True
        elif op == "drop_column":
            model[key]["cols"] = [x for x in model[key]["cols"] if x[0] != st[4]]
            altered = True
        elif op == "alter_type":
            for x in model[key]["cols"]:
                if x[0] == st[4]:
                    x[1] = st[5]
            altered = True
        elif op == "rename_column":
            for x in model[key]["cols"]:
                if x[0] == st[4]:
                    x[0] = st[5]
            model[key].setdefault("renamed_cols", set()).add(st[5])
            altered = True
        elif op == "rename_table":
            k2 = (st[1], st[2], st[4])
            leaves(key)
            model[k2] = model.pop(key)
            model[k2].setdefault("tags", set()).add("table-renamed")
            if k2 in ever:
                reused = True
                env.count("reused_names")
            ever.add(k2)
            altered = True
        elif op in ("comment_on", "set_comment", "comment_on_view"):
            model[key]["comment"] = st[4]
            altered = True
        hist = f"step {si} {sql!r}"
        _observe(env, {"DB1": conn, "DB2": obs}, model, hist, op)
    if reused or altered:
        env.nontrivial(case)


def _cause(o: dict, col: str | None = None, field: str = "", got: Any = None) -> str:
    """Which earlier operation on the object can explain a metadata discrepancy in this field (part of the mechanism key)."""
    f = o.get("former")
    if f and got is not None:
        # the observed value is one that an earlier object of this name declared and this object does not
        if field in ("character_maximum_length", "varchar-length") and got in f["lengths"].get(col, ()):
            return "value-of-a-former-holder-of-the-name"
        if field == "comment" and got in f["comments"]:
            return "value-of-a-former-holder-of-the-name"
    tags = set(o.get("tags", set()))
    if col is not None and col in o.get("renamed_cols", set()):
        tags.add("column-renamed")
    if field in ("is_nullable", "nullable"):
        relevant = ["cloned"]
    elif field in ("comment",):
        relevant = ["table-renamed", "cloned"]
    else:
        relevant = ["column-renamed", "table-renamed", "cloned", "ctas"]
    return next((t for t in relevant if t in tags), "no-earlier-operation")


def _has_view_on(model: dict, key: tuple) -> bool:
    return any(o["kind"] == "view" and o.get("on") == key for o in model.values())


def _q(c: Any, sql: str) -> list | None:
    o = core.run_stmt(c.cursor(), sql)
    return [tuple(r) for r in o["rows"]] if o["ok"] else None


def _observe(env: core.Env, conns: dict, model: dict, hist: str, op: str) -> bool:
    failed = []
    vantage = [""]
    home: dict = {}

    def bad(observer: str, what: str, detail: str) -> bool:
        # record and keep sweeping the other observers: one step may expose several mechanisms
        env.witness(f"C09/{observer}/{what}{vantage[0]}", f"{hist}: {detail}"[:1100])
        failed.append(observer)
        return False

    obs = conns["DB2"]

    for db, vant in (("DB1", "home"), ("DB2", "home"), ("DB1", "foreign"), ("DB2", "foreign")):
        objs = {k: o for k, o in model.items() if k[0] == db}
        obs = conns[db] if vant == "home" else conns["DB2" if db == "DB1" else "DB1"]
        vantage[0] = ""
        env.cover("vantage", vant)
        # 1. information_schema.tables
        env.count("cmp_is_tables")
        rows = _q(obs, f"SELECT table_catalog, table_schema, table_name, table_type, comment FROM {db}.information_schema.tables "
                       "WHERE table_schema <> 'information_schema' AND table_schema <> 'INFORMATION_SCHEMA'")
        if rows is None:
            bad("information_schema.tables", "query-failed", db)
            rows = []
        if vant == "home":
            home[("tables", db)] = sorted(rows, key=repr)
        else:
            if sorted(rows, key=repr) != home[("tables", db)]:
                hs, fs_ = set(home[("tables", db)]), set(rows)
                bad("information_schema.tables", "differs-by-session-context", f"{db}: only from home context {sorted(hs - fs_, key=repr)}, only from foreign {sorted(fs_ - hs, key=repr)}")
            rows2 = _q(obs, "SELECT table_schema, table_name, column_name, ordinal_position, data_type, character_maximum_length, numeric_precision, "
                            f"numeric_scale, is_nullable, table_catalog FROM {db}.information_schema.columns WHERE table_schema <> 'information_schema'")
            env.count("cmp_is_columns")
            if rows2 is None or sorted(rows2, key=repr) != home[("columns", db)]:
                bad("information_schema.columns", "differs-by-session-context", f"{db}")
            continue
        want = sorted((k[0], k[1], k[2], "BASE TABLE" if o["kind"] == "table" else "VIEW", o["comment"]) for k, o in objs.items())
        got = sorted(rows, key=repr)
        gset, wset = {r[:4] for r in got}, {w[:4] for w in want}
        if gset != wset:
            extra, missing = sorted(gset - wset), sorted(wset - gset)
            internal = [e for e in extra if str(e[2]).startswith("_fs_") or str(e[2]).upper() == "MERGE_CANDIDATES"]
            other_db = [e for e in extra if e not in internal and e[0] != db]
            rest = [e for e in extra if e not in internal and e not in other_db]
            if internal:
                bad("information_schema.tables", "internal-object-listed", f"{db}: {internal}")
            if other_db:
                bad("information_schema.tables", "other-database-objects-listed", f"{db}.information_schema.tables lists {other_db}")
            if rest:
                bad("information_schema.tables", "dropped-or-unknown-object-listed", f"{db}: {rest}")
            if missing:
                bad("information_schema.tables", "object-missing", f"{db}: {missing}")
        gm = {r[:3]: r[4] for r in got}
        dif = [(w[:3], w[4], gm[w[:3]]) for w in want if w[:3] in gm and (gm[w[:3]] or None) != (w[4] or None)]
        if dif:
            for k3, w, g in dif:
                kind = "stale-comment" if (g not in (None, "") and not w) else "lost-or-wrong-comment"
                bad("information_schema.tables", f"{kind}/{_cause(model[k3], None, 'comment', g)}", f"(object, declared, reported): {(k3, w, g)}")
        # 2. information_schema.columns
        env.count("cmp_is_columns")
        rows = _q(obs, "SELECT table_schema, table_name, column_name, ordinal_position, data_type, character_maximum_length, numeric_precision, "
                       f"numeric_scale, is_nullable, table_catalog FROM {db}.information_schema.columns WHERE table_schema <> 'information_schema'")
        if rows is None:
            bad("information_schema.columns", "query-failed", db)
            rows = []
        home[("columns", db)] = sorted(rows, key=repr)
        foreign_rows = [r for r in rows if r[9] != db and not str(r[1]).startswith("_fs_")]
        if foreign_rows:
            bad("information_schema.columns", "other-database-objects-listed", f"{db}.information_schema.columns lists {sorted({(r[9], r[0], r[1]) for r in foreign_rows})}")
        rows = [r[:9] for r in rows if r[9] == db or str(r[1]).startswith("_fs_")]
        want_c = []
        for k, o in objs.items():
            for i, (c, ty, nn) in enumerate(o["cols"], start=1):
                dt, _, p, s, ln, _ = TYPES[ty]
                want_c.append((k[1], k[2], c, i, dt, ln, p, s, "NO" if nn else "YES"))
        got_c = sorted(rows, key=repr)
        want_c = sorted(want_c, key=repr)
        if got_c != want_c:
            gk = {(r[0], r[1], r[2]): r for r in got_c}
            wk = {(r[0], r[1], r[2]): r for r in want_c}
            if set(gk) != set(wk):
                extra = sorted(set(gk) - set(wk))
                what = "internal-object-listed" if any(str(e[1]).startswith("_fs_") for e in extra) else ("unexpected-columns" if extra else "columns-missing")
                bad("information_schema.columns", what, f"unexpected {extra} missing {sorted(set(wk) - set(gk))}")
            for key3, w in wk.items():
                if key3 not in gk:
                    continue
                g = gk[key3]
                if model[(db, key3[0], key3[1])]["kind"] == "view":
                    g, w = g[:5] + (None,) + g[6:], w[:5] + (None,) + w[6:]  # a view's text length is not asserted
                if g != w:
                    field = ["", "", "", "ordinal_position", "data_type", "character_maximum_length", "numeric_precision", "numeric_scale", "is_nullable"][
                        next(i for i in range(9) if g[i] != w[i])]
                    oo_ = model[(db, key3[0], key3[1])]
                    bad("information_schema.columns", f"{field}/{oo_['kind']}/{_cause(oo_, key3[2], field, g[5] if field == 'character_maximum_length' else None)}", f"{key3}: got {g} want {w}")
                    break
        # 3. information_schema.views
        env.count("cmp_is_views")
        rows = _q(obs, f"SELECT table_schema, table_name FROM {db}.information_schema.views")
        want_v = sorted((k[1], k[2]) for k, o in objs.items() if o["kind"] == "view")
        if rows is None or sorted(rows) != want_v:
            bad("information_schema.views", "differs", f"got {rows} want {want_v}")
        # 6/7. SHOW TABLES / OBJECTS in database + per schema
        for scope, flt in ([(f"IN DATABASE {db}", None)] + [(f"IN SCHEMA {db}.{_qp(sc)}", sc) for d2, sc in SCHEMAS if d2 == db]):
            for what, kinds in (("TABLES", ("table",)), ("OBJECTS", ("table", "view")), ("TERSE TABLES", ("table",))):
                env.count("cmp_show_tables" if "TABLES" in what else "cmp_show_objects")
                rows = _q(obs, f"SHOW {what} {scope}")
                if rows is None:
                    bad(f"show-{what.lower().replace(' ', '-')}", "query-failed", scope)
                    continue
                got_s = sorted((r[3], r[4], r[1], r[2]) for r in rows
                               if not (str(r[4]).lower() == "information_schema" and not str(r[1]).startswith("_fs_")))
                want_s = sorted((k[0], k[1], k[2], "TABLE" if o["kind"] == "table" else "VIEW") for k, o in objs.items()
                                if o["kind"] in kinds and (flt is None or k[1] == flt))
                if got_s != want_s:
                    extra = [g for g in got_s if g not in want_s]
                    w2 = "internal-object-listed" if any(str(e[2]).startswith("_fs_") for e in extra) else (
                        "unexpected-object" if extra else "object-missing")
                    sc_kind = "database-scope" if flt is None else "schema-scope"
                    bad(f"show-{what.lower().replace(' ', '-')}", f"{w2}/{sc_kind}", f"{scope}: got {got_s} want {want_s}")
        # 8. SHOW SCHEMAS IN DATABASE
        env.count("cmp_show_schemas")
        rows = _q(obs, f"SHOW SCHEMAS IN DATABASE {db}")
        if rows is None:
            bad("show-schemas", "query-failed", db)
            rows = []
        got_sc = sorted(r[1] for r in rows if str(r[1]).upper() != "INFORMATION_SCHEMA")
        want_sc = sorted(sc for d2, sc in SCHEMAS if d2 == db)
        if got_sc != want_sc or any(r[3] != db for r in rows):
            bad("show-schemas", "differs", f"got {rows} want {want_sc}")
    vantage[0] = ""
    obs = conns["DB2"]
    # 4. information_schema.databases
    env.count("cmp_is_databases")
    rows = _q(obs, "SELECT database_name FROM DB1.information_schema.databases")
    if rows is None or sorted(rows) != [("DB1",), ("DB2",)]:
        bad("information_schema.databases", "differs", f"{rows}")
    # account-level SHOW
    env.count("cmp_show_tables")
    rows = _q(obs, "SHOW TABLES IN ACCOUNT")
    if rows is not None:
        got_a = sorted((r[3], r[4], r[1]) for r in rows)
        want_a = sorted(k for k, o in model.items() if o["kind"] == "table")
        if got_a != want_a:
            extra = [g for g in got_a if g not in want_a]
            w2 = "internal-object-listed" if any(str(e[2]).startswith("_fs_") for e in extra) else ("unexpected-object" if extra else "object-missing")
            bad("show-tables", f"{w2}/account-scope", f"got {got_a} want {want_a}")
    # 9. SHOW PRIMARY KEYS (current database of the observer is DB2)
    env.count("cmp_show_pk")
    rows = _q(obs, "SHOW PRIMARY KEYS")
    if rows is None:
        bad("show-primary-keys", "query-failed", "")
        rows = []
    got_pk = sorted((r[1], r[2], r[3], r[4]) for r in rows)
    want_pk = sorted((k[0], k[1], k[2], o["pk"]) for k, o in model.items() if o.get("pk") and k[0] == "DB2")
    if got_pk != want_pk:
        bad("show-primary-keys", "differs", f"got {got_pk} want {want_pk}")
    # 5/10. DESCRIBE + description of SELECT * for every object
    for k, o, vant in [(k, o, v) for k, o in model.items() for v in ("home", "foreign")]:
        fq = _fqn(k)
        obs = conns[k[0]] if vant == "home" else conns["DB2" if k[0] == "DB1" else "DB1"]
        vantage[0] = "" if vant == "home" else "/from-other-database-context"
        env.count("cmp_describe")
        rows = _q(obs, f"DESCRIBE {'TABLE' if o['kind'] == 'table' else 'VIEW'} {fq}")
        if vant == "foreign":
            if rows != home.get(("describe", k)):
                vantage[0] = ""
                bad("describe", f"differs-by-session-context/{o['kind']}", f"{fq}: home {home.get(('describe', k))} foreign {rows}")
            continue
        home[("describe", k)] = rows
        if rows is None:
            bad("describe", f"query-failed/{o['kind']}", fq)
            continue
        got_d = [(r[0], r[1], r[3]) for r in rows]
        want_d = [(c, TYPES[ty][1], "N" if nn else "Y") for c, ty, nn in o["cols"]]
        if o["kind"] == "view":  # a view's text length is not asserted
            got_d = [(a, "VARCHAR" if b.startswith("VARCHAR") else b, c) for a, b, c in got_d]
            want_d = [(a, "VARCHAR" if b.startswith("VARCHAR") else b, c) for a, b, c in want_d]
        if got_d != want_d:
            if [g[0] for g in got_d] != [w[0] for w in want_d]:
                bad("describe", f"column-list/{o['kind']}", f"{fq}: got {got_d} want {want_d}")
                continue
            i = next(i for i in range(len(want_d)) if got_d[i] != want_d[i])
            fld = "type" if got_d[i][1] != want_d[i][1] else "nullable"
            if fld == "type":
                fld = "varchar-length" if want_d[i][1].startswith("VARCHAR") and got_d[i][1].startswith("VARCHAR") else "type"
            gl = None
            if fld == "varchar-length" and got_d[i][1][8:-1].isdigit():
                gl = int(got_d[i][1][8:-1])
            bad("describe", f"{fld}/{o['kind']}/{_cause(o, want_d[i][0], fld, gl)}", f"{fq}: got {got_d[i]} want {want_d[i]}")
        env.count("cmp_select_star")
        c2 = obs.cursor()
        oo = core.run_stmt(c2, f"SELECT * FROM {fq}")
        d = core.read_description(c2)
        if not oo["ok"] or not d["ok"]:
            bad("select-star", f"failed/{o['kind']}", f"{fq}: {oo.get('exc') or d.get('exc')}")
            continue
        got_m = [(x[0], x[1], x[4], x[5]) for x in d["desc"]]
        want_m = []
        for c, ty, _nn in o["cols"]:
            _, _, p, s, _, code = TYPES[ty]
            want_m.append((c, code, p if code == 0 else None, s if code == 0 else None))
        norm_g = [(n, code, p if code == 0 else None, s if code == 0 else None) for n, code, p, s in got_m]
        if norm_g != want_m:
            bad("select-star-description", o["kind"], f"{fq}: got {norm_g} want {want_m}")
    return not failed
