"""C17 The HTTP server answers exactly like the in-process fake.

Monitor: differential - the same statements are run in lock-step through the real
snowflake.connector against fakesnow.server (uvicorn on a loopback port inside the worker)
and on an in-process instance; rows (values and Python types), description, rowcount and
errors are compared. Session monitors: per-login context/variables, data sharing vs
isolation, 401 for missing/malformed/unknown tokens without touching any session."""

from __future__ import annotations

import datetime
import decimal
import gzip
import json
import random
import socket
import threading
import time
from typing import Any

from fsverif import core, zoo

ID = "C17"
LEVEL = "exploration"
BUDGET = {"quick": 85, "thorough": 700}
WORKERS = {"quick": 16, "thorough": 16}
RULE = (
    "case = a short statement list run in lock-step over HTTP and in-process: zoo templates of every kind, and generated typed "
    "SELECTs (1-6 columns x 1-4 rows over BOOLEAN, INT, NUMBER(p,s) up to 38 digits, FLOAT, VARCHAR, DATE, TIME, TIMESTAMP_NTZ, "
    "TIMESTAMP_TZ, BINARY, VARIANT with NULL in every type, all microsecond classes, pre-1970 values, empty and >2048-row "
    "results); session cases drive logins/tokens. Non-trivial = at least one statement was executed on both sides and "
    "compared; distinct = distinct statement lists."
)
REQUIRED = ["cmp_rows", "cmp_description", "cmp_rowcount", "cmp_error", "cmp_sessions", "cmp_401", "http_statements"]
ASSUMPTIONS = [
    "statements for which the in-process side raises a non-Snowflake (internal) exception are not sent over HTTP (the server "
    "would answer 500 and the connector would retry); they are counted, and are C07's subject",
    "time-zone-aware datetimes are compared as instant + UTC offset",
]

D = decimal.Decimal
_state: dict[str, Any] = {}


# ---------------------------------------------------------------------------
# typed value pools: (sql literal, type tag)
# ---------------------------------------------------------------------------
def _typed_pool(r: random.Random) -> list[tuple[str, str]]:
    def ts(t: datetime.datetime) -> str:
        return t.isoformat(sep=" ")

    tss = [datetime.datetime(1969, 12, 31, 23, 59, 59, 999999), datetime.datetime(1970, 1, 1), datetime.datetime(1970, 1, 1, 0, 0, 0, 1),
           datetime.datetime(2020, 1, 2, 3, 4, 5, 123456), datetime.datetime(2013, 4, 5, 1, 2, 3, 100000), datetime.datetime(1900, 6, 15, 12, 30, 0, 500),
           datetime.datetime(9999, 12, 31, 23, 59, 59, 999999), datetime.datetime(1, 1, 1), datetime.datetime(2038, 1, 19, 3, 14, 8, 999000),
           datetime.datetime(1960, 2, 29, 6, 7, 8, r.randint(0, 999999)), datetime.datetime(2000 + r.randint(0, 50), r.randint(1, 12), r.randint(1, 28), r.randint(0, 23), r.randint(0, 59), r.randint(0, 59), r.randint(0, 999999))]
    pool = [("TRUE", "bool"), ("FALSE", "bool"), ("NULL::BOOLEAN", "bool"),
            ("0", "int"), ("-1", "int"), ("9223372036854775807::BIGINT", "int"), ("(-9223372036854775807 - 1)::BIGINT", "int"), ("NULL::INT", "int"), (str(r.randint(-10**9, 10**9)), "int"),
            ("12.34::NUMBER(10,2)", "dec"), ("-0.01::NUMBER(10,2)", "dec"), ("99999999999999999999999999999999999999::NUMBER(38,0)", "dec"),
            ("0.0000000001::NUMBER(38,10)", "dec"), ("1234567890123456789012345678.9012345678::NUMBER(38,10)", "dec"), ("NULL::NUMBER(10,2)", "dec"),
            ("-99999999999999999999999999999999999999::NUMBER(38,0)", "dec"), ("0.5::NUMBER(5,5)", "dec"),
            ("2.0::FLOAT", "float"), ("-1.5e300::FLOAT", "float"), ("5e-324::FLOAT", "float"), ("0.1::FLOAT", "float"), ("NULL::FLOAT", "float"), ("123456789.125::FLOAT", "float"),
            ("'hello'", "str"), ("''", "str"), ("'é✓🎉'", "str"), ("'line\nbreak'", "str"), ("NULL::VARCHAR", "str"), ("'it''s'", "str"), ("'x'::VARCHAR(20)", "str"),
            ("'2018-04-15'::DATE", "date"), ("'1969-12-31'::DATE", "date"), ("'0001-01-01'::DATE", "date"), ("'9999-12-31'::DATE", "date"), ("NULL::DATE", "date"),
            ("'04:15:29.123456'::TIME", "time"), ("'00:00:00'::TIME", "time"), ("'23:59:59.999999'::TIME", "time"), ("NULL::TIME", "time"), ("'12:00:00.000001'::TIME", "time"),
            ("NULL::TIMESTAMP_NTZ", "ntz"), ("NULL::TIMESTAMP_TZ", "tz"),
            ("'ab'::BINARY", "bin"), ("NULL::BINARY", "bin"),
            ("PARSE_JSON('{\"k\": [1, 2.5, null]}')", "variant"), ("1.23::VARIANT", "variant"), ("NULL::VARIANT", "variant"), ("OBJECT_CONSTRUCT('k', 'v1')", "variant")]
    for t in tss:
        pool.append((f"'{ts(t)}'::TIMESTAMP_NTZ", "ntz"))
        pool.append((f"'{ts(t)}+00:00'::TIMESTAMP_TZ", "tz"))
    pool.append(("'2013-04-05 01:02:03.123456+05:30'::TIMESTAMP_TZ", "tz"))
    return pool


def gen_cases(tier: str, seed: int):
    r = random.Random(f"{seed}:C17")
    # session-level cases (few, slow)
    for k in range(16 if tier == "quick" else 64):
        yield {"kind": "sessions", "seed": r.randrange(1 << 30)}
        yield {"kind": "tokens", "seed": r.randrange(1 << 30)}
        yield {"kind": "reshape", "seed": r.randrange(1 << 30)}
        yield {"kind": "describe", "seed": r.randrange(1 << 30)}
        yield {"kind": "txn_with_failure", "seed": r.randrange(1 << 30)}
    # zoo templates in lock-step
    reps = 2 if tier == "quick" else 30
    tags = [z["tag"] for z in zoo.ZOO]
    for _ in range(reps):
        order = tags[:]
        r.shuffle(order)
        for i in range(0, len(order), 4):
            yield {"kind": "zoo", "tags": order[i:i + 4]}
    # typed selects
    n = 2200 if tier == "quick" else 60000
    for _ in range(n):
        pool = _typed_pool(r)
        ncols = r.randint(1, 6)
        types = [r.choice(["bool", "int", "dec", "float", "str", "date", "time", "ntz", "tz", "bin", "variant"]) for _ in range(ncols)]
        nrows = r.choice([1, 1, 2, 3, 4])
        rows = []
        for _ in range(nrows):
            rows.append([r.choice([p for p in pool if p[1] == t])[0] for t in types])
        # column names: distinct, or (one result in six) repeated - two columns of one name keep their own types and values
        nm = (lambda j: f"C{j}") if r.random() > 0.17 or ncols == 1 else r.choice([lambda j: "C", lambda j: f"C{j % 2}", lambda j: f"C{j // 2}"])
        names = [nm(j) for j in range(ncols)]
        if len(set(names)) < ncols:
            yield {"kind": "typed", "sql": " UNION ALL ".join("SELECT " + ", ".join(f"{v} AS {names[j]}" for j, v in enumerate(row)) for row in rows), "types": types, "dup_names": True}
            continue
        if r.random() < 0.08:
            sql = "SELECT " + ", ".join(f"{v} AS C{j}" for j, v in enumerate(rows[0])) + " WHERE 1 = 0"
        elif r.random() < 0.03:
            big = r.choice([1000, 2048, 2049, 5000])
            sql = f"SELECT seq AS N, seq * 2 AS M, 's' || seq AS S FROM (SELECT row_number() OVER (ORDER BY 1) AS seq FROM BIGSRC) WHERE seq <= {big} ORDER BY 1"
        else:
            sql = " UNION ALL ".join("SELECT " + ", ".join(f"{v} AS C{j}" for j, v in enumerate(row)) for row in rows)
        yield {"kind": "typed", "sql": sql, "types": types}


# ---------------------------------------------------------------------------
def _free_port() -> int:
    s = socket.socket()
    s.bind(("127.0.0.1", 0))
    p = s.getsockname()[1]
    s.close()
    return p


def setup_worker(env: core.Env) -> None:
    import uvicorn

    import fakesnow.server as server

    port = _free_port()
    srv = uvicorn.Server(uvicorn.Config(server.app, host="127.0.0.1", port=port, log_level="error"))
    th = threading.Thread(target=srv.run, name="fsverif-uvicorn", daemon=True)
    th.start()
    t0 = time.time()
    while not srv.started:
        if time.time() - t0 > 30:
            raise RuntimeError("uvicorn did not start")
        time.sleep(0.05)
    _state.update(server=server, srv=srv, thread=th, port=port)
    _resync()


def teardown_worker(env: core.Env) -> None:
    try:
        _state["srv"].should_exit = True
        _state["thread"].join(timeout=10)
    except Exception:  # noqa: BLE001
        pass


def _connect_http(isolated: bool = True, database: str | None = "db1", schema: str | None = "s1", db_path: str | None = None) -> Any:
    import snowflake.connector

    sp: dict[str, Any] = {"CLIENT_OUT_OF_BAND_TELEMETRY_ENABLED": False}
    if isolated:
        sp["FAKESNOW_DB_PATH"] = ":isolated:"
    if db_path:
        sp["FAKESNOW_DB_PATH"] = db_path
    kw: dict[str, Any] = dict(user="fake", password="snow", account="fakesnow", host="127.0.0.1", port=_state["port"], protocol="http",
                              session_parameters=sp, network_timeout=8, login_timeout=8)
    if database:
        kw["database"] = database
    if schema:
        kw["schema"] = schema
    return snowflake.connector.connect(**kw)


def _resync() -> None:
    """Fresh, identically prepared twins: an isolated HTTP session and an in-process instance."""
    for k in ("http", "local_fs"):
        o = _state.get(k)
        try:
            if k == "http" and o is not None:
                o.close()
            elif o is not None:
                o.duck_conn.close()
        except Exception:  # noqa: BLE001
            pass
    http = _connect_http()
    fs = core.new_fs()
    local = fs.connect("db1", "s1")
    hc, lc = http.cursor(), local.cursor()
    for s in zoo.FIXTURE + ["CREATE TABLE BIGSRC AS SELECT 1 AS X FROM (SELECT 1 FROM ORDERS a, ORDERS b, ORDERS c, ORDERS d, ORDERS e, ORDERS f, ORDERS g)"]:
        hc.execute(s)
        lc.execute(s)
    _state.update(http=http, local=local, local_fs=fs)


def _canon(v: Any) -> Any:
    if isinstance(v, datetime.datetime) and v.tzinfo is not None:
        return ("aware", v.astimezone(datetime.timezone.utc).replace(tzinfo=None), v.utcoffset())
    if isinstance(v, (bytes, bytearray)):
        return (type(v).__name__, bytes(v))
    if isinstance(v, float) and v != v:
        return ("nan",)
    return (type(v).__name__, v)


def _rows_canon(rows: Any) -> Any:
    if rows is None:
        return None
    return [tuple(_canon(v) for v in r) for r in rows]


_posts = {"n": 0, "transport_retries": 0}


def _count_query_posts() -> None:
    """Watch the connector's HTTP attempts at query-request. An attempt that ends in a transport failure (time-out, reset
    connection - not an HTTP status answered by the server) is re-sent by the connector, and the server may then have
    executed the statement twice: that is the connector's retry on a loaded machine, not an answer of the fake."""
    from snowflake.connector.errors import Error as SfError
    from snowflake.connector.network import RetryRequest, SnowflakeRestful

    if getattr(SnowflakeRestful, "_fsverif_counted", False):
        return
    orig = SnowflakeRestful._request_exec

    def wrapper(self: Any, session: Any, method: str, full_url: str, *a: Any, **k: Any) -> Any:
        q = "query-request" in full_url
        if q:
            _posts["n"] += 1
        try:
            return orig(self, session, method, full_url, *a, **k)
        except RetryRequest as rr:
            if q and not (rr.args and isinstance(rr.args[0], SfError)):
                _posts["transport_retries"] += 1
            raise

    SnowflakeRestful._request_exec = wrapper
    SnowflakeRestful._fsverif_counted = True


def _run_remote(sql: str) -> dict:
    _count_query_posts()
    cur = _state["http"].cursor()
    out: dict[str, Any] = {}
    n0 = _posts["transport_retries"]
    try:
        cur.execute(sql)
    except Exception as e:  # noqa: BLE001
        out["ok"] = False
        out["exc"] = core.exc_info(e)
        out["retried"] = _posts["transport_retries"] > n0
        return out
    out["retried"] = _posts["transport_retries"] > n0
    out["ok"] = True
    out["rowcount"] = cur.rowcount
    try:
        out["rows"] = cur.fetchall()
    except Exception as e:  # noqa: BLE001
        out["rows"] = None
        out["fetch_exc"] = core.exc_info(e)
    try:
        out["desc"] = [tuple(x) for x in cur.description] if cur.description is not None else None
    except Exception as e:  # noqa: BLE001
        out["desc"] = f"raises {type(e).__name__}"
    return out


def _run_local(sql: str) -> dict:
    cur = _state["local"].cursor()
    out = core.run_stmt(cur, sql)
    if out["ok"]:
        d = core.read_description(cur)
        out["desc"] = d["desc"] if d["ok"] else f"raises {d['exc']['cls']}"
    return out


def _null_classes(rows: Any, types: list | None) -> str:
    return "with-null" if rows and any(v is None for r in rows for v in r) else "no-null"


def _compare(env: core.Env, sql: str, kind: str, types: list | None = None) -> bool:
    """Run on both sides and compare.  Returns False when the twins must be re-synchronised."""
    lo = _run_local(sql)
    if not lo["ok"] and lo["exc"]["kind"] == "internal":
        # an engine-level exception in process (C07's business) is not sent over HTTP (a 5xx makes the connector retry for
        # seconds); a statement that is not a pure read may have been applied in part, so the twins start afresh
        env.count("skipped_internal_exception")
        return sql.split()[0].upper() in ("SELECT", "SHOW", "DESCRIBE", "DESC", "WITH")
    env.count("http_statements")
    ro = _run_remote(sql)
    if _posts["n"] == 0:
        raise core.Inconclusive("the retry monitor saw no query-request although a statement was executed over HTTP")
    if ro.get("retried"):
        # the connector re-sent the request (timeout / reset connection on a loaded machine): nothing to compare
        env.count("transport_retries_discarded")
        return False
    head = sql.split()[0].upper()
    if lo["ok"] != ro["ok"]:
        env.witness(f"C17/success-differs/{kind}/{head}", f"{sql[:300]!r}: in-process ok={lo['ok']} {lo.get('exc')} ; http ok={ro['ok']} {ro.get('exc')}"[:900])
        return False
    if not lo["ok"]:
        env.count("cmp_error")
        le, re_ = lo["exc"], ro["exc"]
        lk = (le["cls"], le.get("errno"), le.get("sqlstate"), (le.get("rawmsg") or "").strip())
        rk = (re_["cls"], re_.get("errno"), re_.get("sqlstate"), (re_.get("rawmsg") or "").strip())
        if lk != rk:
            field = "class" if lk[0] != rk[0] else "errno" if lk[1] != rk[1] else "sqlstate" if lk[2] != rk[2] else "message"
            env.witness(f"C17/error-differs/{field}", f"{sql[:200]!r}: in-process {lk} http {rk}"[:900])
        return True
    env.count("cmp_rows")
    lr, rr = _rows_canon(lo["rows"]), _rows_canon(ro["rows"])
    ordered = "ORDER BY" in sql.upper() or (lr is not None and len(lr) <= 1) or " UNION ALL " in sql
    same = (lr == rr) if ordered else (sorted(map(repr, lr or [])) == sorted(map(repr, rr or [])))
    if not same:
        # localise: which column / type differs
        what = "row-count"
        if lr is not None and rr is not None and len(lr) == len(rr):
            what = "values"
            for a, b in zip(lr, rr):
                for j, (x, y) in enumerate(zip(a, b)):
                    if x != y:
                        tname = types[j] if types and j < len(types) else x[0]
                        what = f"{tname}/{'null' if x == ('NoneType', None) else 'value'}->{'null' if y == ('NoneType', None) else y[0]}"
                        break
                else:
                    continue
                break
        elif rr is None:
            what = "http-fetch-failed"
        env.witness(f"C17/rows-differ/{kind}/{what}", f"{sql[:300]!r}: in-process {lo['rows'] if lo['rows'] is None else lo['rows'][:3]} http {ro['rows'] if ro['rows'] is None else ro['rows'][:3]} {ro.get('fetch_exc', '')}"[:1000])
    env.count("cmp_description")
    if lo.get("desc") != ro.get("desc"):
        ld, rd = lo.get("desc"), ro.get("desc")
        what = "shape"
        if isinstance(ld, list) and isinstance(rd, list) and len(ld) == len(rd):
            j = next(i for i in range(len(ld)) if ld[i] != rd[i])
            fields = ["name", "type_code", "display_size", "internal_size", "precision", "scale", "is_nullable"]
            what = fields[next(i for i in range(7) if ld[j][i] != rd[j][i])]
        env.witness(f"C17/description-differs/{kind}/{what}", f"{sql[:200]!r}: in-process {ld} http {rd}"[:900])
    env.count("cmp_rowcount")
    if lo["rowcount"] != ro["rowcount"]:
        env.witness(f"C17/rowcount-differs/{head}", f"{sql[:200]!r}: in-process {lo['rowcount']} http {ro['rowcount']}")
    return True


def run_case(case: dict, env: core.Env) -> None:
    kind = case["kind"]
    if kind == "sessions":
        return _sessions(case, env)
    if kind == "tokens":
        return _tokens(case, env)
    if kind == "reshape":
        return _reshape(case, env)
    if kind == "describe":
        return _describe(case, env)
    if kind == "txn_with_failure":
        # a failing statement inside an open transaction: the same error, and the transaction goes on the same way
        r = random.Random(case["seed"])
        bad = r.choice(["SELECT * FROM NO_SUCH_TABLE_T", "SELECT NOCOL FROM ORDERS", "SELECT $no_such_variable_t", "INSERT INTO NO_SUCH_TABLE_T VALUES (1)"])
        end = r.choice(["COMMIT", "ROLLBACK"])
        n = 880000 + r.randrange(1000)
        for sql in ("BEGIN", f"INSERT INTO ORDERS (ID) VALUES ({n})", bad, f"INSERT INTO ORDERS (ID) VALUES ({n + 1})", f"SELECT COUNT(*) FROM ORDERS WHERE ID >= {n}", end,
                    f"SELECT COUNT(*) FROM ORDERS WHERE ID >= {n}", f"DELETE FROM ORDERS WHERE ID >= {n}"):
            if not _compare(env, sql, "txn"):
                _resync()
                break
        env.nontrivial(("txn_with_failure", bad, end))
        return
    if kind == "typed":
        env.cover("typed_types", "+".join(sorted(set(case["types"]))))
        if case.get("dup_names"):
            env.count("typed_results_with_repeated_column_names")
        if not _compare(env, case["sql"], "typed", case["types"]):
            _resync()
        env.nontrivial(case["sql"])
        return
    for tag in case["tags"]:
        z = zoo.BY_TAG[tag]
        env.cover("zoo", tag)
        for s in z["stmts"]:
            if not _compare(env, zoo.render(s), f"zoo:{tag.split('_')[0]}"):
                _resync()
                break
    env.nontrivial(case["tags"])


# ---------------------------------------------------------------------------
def _sessions(case: dict, env: core.Env) -> None:
    r = random.Random(case["seed"])
    server = _state["server"]
    env.count("cmp_sessions")
    before_tokens = set(server.sessions)
    uid = r.randrange(1 << 30)
    # three logins on the shared instance: own context and variables, shared data
    conns = [_connect_http(isolated=False, database=f"shr{uid}", schema=sc) for sc in ("sa", "sb", "sa")]
    try:
        new_tokens = set(server.sessions) - before_tokens
        if len(new_tokens) != 3:
            env.witness("C17/sessions/logins-do-not-create-distinct-tokens", f"{len(new_tokens)} new tokens for 3 logins")
        c0, c1, c2 = (c.cursor() for c in conns)
        c0.execute("CREATE TABLE SHARED_T (ID INT)")
        c0.execute("INSERT INTO SHARED_T VALUES (1), (2)")
        c0.execute("SET myvar = 'zero'")
        c1.execute("SET myvar = 'one'")
        got = [c0.execute("SELECT $myvar").fetchall(), c1.execute("SELECT $myvar").fetchall()]
        if got != [[("zero",)], [("one",)]]:
            env.witness("C17/sessions/variables-not-per-login", str(got))
        try:
            c2.execute("SELECT $myvar")
            env.witness("C17/sessions/variable-leaks-to-other-login", "third login sees $myvar")
        except Exception:  # noqa: BLE001
            pass
        ctx = [c.execute("SELECT CURRENT_DATABASE(), CURRENT_SCHEMA()").fetchall()[0] for c in (c0, c1, c2)]
        want = [(f"SHR{uid}", "SA"), (f"SHR{uid}", "SB"), (f"SHR{uid}", "SA")]
        if ctx != want:
            env.witness("C17/sessions/context-not-per-login", f"{ctx} expected {want}")
        c1.execute("USE SCHEMA SA")
        if c0.execute("SELECT CURRENT_SCHEMA()").fetchall() != [("SA",)] or c1.execute("SELECT CURRENT_SCHEMA()").fetchall() != [("SA",)]:
            env.witness("C17/sessions/use-schema", "USE SCHEMA on one login")
        c1.execute("USE SCHEMA SB")
        if c2.execute("SELECT CURRENT_SCHEMA()").fetchall() != [("SA",)]:
            env.witness("C17/sessions/context-shared-between-logins", "USE SCHEMA of one login moved another")
        # shared data: the third login (same schema) sees the table
        if c2.execute("SELECT COUNT(*) FROM SHARED_T").fetchall() != [(2,)]:
            env.witness("C17/sessions/default-logins-do-not-share-data", "third login cannot see SHARED_T rows")
        # isolated login does not
        iso = _connect_http(isolated=True, database=f"shr{uid}", schema="sa")
        try:
            try:
                rows = iso.cursor().execute("SELECT COUNT(*) FROM SHARED_T").fetchall()
                env.witness("C17/sessions/isolated-login-sees-shared-data", str(rows))
            except Exception:  # noqa: BLE001
                pass
            iso.cursor().execute("CREATE TABLE ISO_T (ID INT)")
            iso.cursor().execute("INSERT INTO ISO_T VALUES (1), (2)")
            try:
                c0.execute("SELECT * FROM ISO_T")
                env.witness("C17/sessions/shared-login-sees-isolated-data", "ISO_T visible")
            except Exception:  # noqa: BLE001
                pass
            # and a second isolated login (same database and schema names) is isolated from the first one too
            iso2 = _connect_http(isolated=True, database=f"shr{uid}", schema="sa")
            try:
                env.count("cmp_isolated_pair")
                try:
                    rows = iso2.cursor().execute("SELECT COUNT(*) FROM ISO_T").fetchall()
                    env.witness("C17/sessions/isolated-logins-share-data", f"second isolated login reads ISO_T of the first: {rows}")
                except Exception:  # noqa: BLE001
                    pass
                o = core.run_stmt(iso2.cursor(), "CREATE TABLE ISO_T (ID INT, OWNER VARCHAR)")
                if not o["ok"]:
                    env.witness("C17/sessions/isolated-logins-share-data", f"second isolated login cannot create its own ISO_T: {o['exc']}")
                else:
                    iso2.cursor().execute("INSERT INTO ISO_T VALUES (7, 'seven')")
                    a = iso.cursor().execute("SELECT * FROM ISO_T ORDER BY 1").fetchall()
                    b = iso2.cursor().execute("SELECT * FROM ISO_T ORDER BY 1").fetchall()
                    if a != [(1,), (2,)] or b != [(7, "seven")]:
                        env.witness("C17/sessions/isolated-logins-share-data", f"first reads {a}, second reads {b}")
            finally:
                iso2.close()
        finally:
            iso.close()
        # a login that names a database and no schema has no current schema, as in process
        env.count("cmp_sessions")
        nos = _connect_http(isolated=True, database=f"nos{uid}", schema=None)
        lfs = core.new_fs()
        try:
            lnos = lfs.connect(f"nos{uid}", None)
            for sql in ("SELECT CURRENT_DATABASE()", "CREATE TABLE NS_T (ID INT)", "SELECT COUNT(*) FROM NS_T", f"CREATE SCHEMA NOS{uid}.SX", f"SELECT schema_name FROM NOS{uid}.information_schema.schemata "
                        f"WHERE catalog_name = 'NOS{uid}' AND schema_name NOT IN ('main', 'information_schema') ORDER BY 1"):
                a = core.run_stmt(lnos.cursor(), sql)
                b = core.run_stmt(nos.cursor(), sql)
                ka = (a["ok"], a.get("rows") if a["ok"] else (a["exc"]["cls"], a["exc"].get("errno")))
                kb = (b["ok"], b.get("rows") if b["ok"] else (b["exc"]["cls"], b["exc"].get("errno")))
                if ka != kb:
                    env.witness("C17/sessions/login-without-schema-differs", f"{sql!r}: in-process {ka} http {kb}")
                    break
        finally:
            nos.close()
            lfs.duck_conn.close()
        env.nontrivial(("sessions", case["seed"]))
    finally:
        for c in conns:
            try:
                c.close()
            except Exception:  # noqa: BLE001
                pass


def _reshape(case: dict, env: core.Env) -> None:
    """Two logins sharing data: one re-runs the same statement text after the other changed the table's shape.
    The HTTP answers must equal those of two in-process connections doing the same."""
    r = random.Random(case["seed"])
    uid = r.randrange(1 << 30)
    env.count("cmp_sessions")
    ha, hb = (_connect_http(isolated=False, database=f"rs{uid}", schema="s") for _ in range(2))
    fs = core.new_fs()
    la, lb = fs.connect(f"rs{uid}", "s"), fs.connect(f"rs{uid}", "s")
    shapes = ["(A NUMBER(10,2), B VARCHAR)", "(A NUMBER(12,4), B VARCHAR)", "(A FLOAT, B DATE, C INT)", "(B VARCHAR)", "(A TIMESTAMP_NTZ, B BOOLEAN)"]
    vals = {"(A NUMBER(10,2), B VARCHAR)": "(12.34, 'x')", "(A NUMBER(12,4), B VARCHAR)": "(12.3456, 'y')", "(A FLOAT, B DATE, C INT)": "(1.5, '2020-01-02', 3)",
            "(B VARCHAR)": "('only')", "(A TIMESTAMP_NTZ, B BOOLEAN)": "('2020-01-02 03:04:05.678901', TRUE)"}
    try:
        seq = [r.choice(shapes) for _ in range(r.randint(2, 4))]
        sql = r.choice(["SELECT * FROM T", "SELECT A, B FROM T", "SELECT B FROM T"])
        for shape in seq:
            for c_ in (hb, lb):
                cc = c_.cursor()
                cc.execute(f"CREATE OR REPLACE TABLE T {shape}")
                cc.execute(f"INSERT INTO T VALUES {vals[shape]}")
            if r.random() < 0.3:
                for c_ in (hb, lb):
                    c_.cursor().execute("ALTER TABLE T ADD COLUMN EXTRA INT")
            outs = []
            for c_ in (ha, la):
                cur = c_.cursor()
                try:
                    cur.execute(sql)
                    rows = cur.fetchall()
                    desc = [tuple(x) for x in cur.description]
                    outs.append(("ok", _rows_canon(rows), desc))
                except Exception as e:  # noqa: BLE001
                    ei = core.exc_info(e)
                    outs.append(("err", ei["cls"], ei.get("errno")))
            env.count("http_statements")
            if outs[0] != outs[1]:
                what = "error" if outs[0][0] != outs[1][0] else ("rows" if outs[0][1] != outs[1][1] else "description")
                env.witness(f"C17/reshape-by-other-login/{what}-differs", f"{sql!r} after CREATE OR REPLACE TABLE T {shape}: http {str(outs[0])[:300]} in-process {str(outs[1])[:300]}")
                break
        env.nontrivial(("reshape", case["seed"]))
    finally:
        for c_ in (ha, hb):
            try:
                c_.close()
            except Exception:  # noqa: BLE001
                pass
        fs.duck_conn.close()


def _describe(case: dict, env: core.Env) -> None:
    """cursor.describe(q) over HTTP: the description executing q would give, as in process, and nothing is executed."""
    r = random.Random(case["seed"])
    if _state.get("http") is None:
        _resync()
    hc, lc = _state["http"].cursor(), _state["local"].cursor()
    queries = ["SELECT ID, NAME, AGE, SCORE FROM PEOPLE", "SELECT COUNT(*) AS N, MAX(SCORE) AS M FROM PEOPLE", "SELECT 1 AS A, 'x' AS B, 1.5 AS C, CURRENT_DATE AS D",
               "SELECT * FROM ORDERS o JOIN PEOPLE p ON p.ID = o.ID", "SELECT NAME FROM PEOPLE WHERE 1 = 0"]
    for sql in r.sample(queries, 3):
        env.count("cmp_description")
        try:
            ld = [tuple(x) for x in lc.describe(sql)]
        except Exception:  # noqa: BLE001
            continue
        try:
            hd = [tuple(x) for x in hc.describe(sql)]
        except Exception as e:  # noqa: BLE001
            env.witness(f"C17/describe/http-raises/{type(e).__name__}", f"describe({sql!r}) over HTTP: {e}"[:300])
            continue
        if hd != ld:
            env.witness("C17/describe/differs", f"describe({sql!r}): in-process {ld} http {hd}"[:900])
    # describing a statement that cannot be bound fails the same way on both sides
    if case["seed"] % 2 == 0:
        bad = r.choice(["SELECT * FROM NO_SUCH_TABLE_D", "SELECT NOCOL FROM PEOPLE", "SELECT $no_such_variable_d", "SELECT * FROM NO_DB.S.T"])
        le = he = None
        try:
            lc.describe(bad)
        except Exception as e:  # noqa: BLE001
            le = core.exc_info(e)
        try:
            hc.describe(bad)
        except Exception as e:  # noqa: BLE001
            he = core.exc_info(e)
        env.count("cmp_error")
        if le is not None and le["kind"] == "snowflake":
            lk = (le["cls"], le.get("errno"), le.get("sqlstate"))
            hk = None if he is None else (he["cls"], he.get("errno"), he.get("sqlstate"))
            if lk != hk:
                env.witness("C17/describe/error-differs", f"describe({bad!r}): in-process {lk} http {hk}")
    # describing a statement with an effect has none, on either side
    before = (lc.execute("SELECT COUNT(*) FROM ORDERS").fetchall(), hc.execute("SELECT COUNT(*) FROM ORDERS").fetchall())
    for side, cur in (("in-process", lc), ("http", hc)):
        # (a refused describe over HTTP is an HTTP 500 that the connector retries for seconds: one statement, every 4th case)
        effects = ("INSERT INTO ORDERS (ID) VALUES (777001)", "DELETE FROM ORDERS", "CREATE TABLE MADE_BY_DESCRIBE (ID INT)")
        if side == "http":
            effects = (effects[case["seed"] % 3],) if case["seed"] % 4 == 0 else ()
        for sql in effects:
            try:
                cur.describe(sql)
            except Exception:  # noqa: BLE001
                pass  # describing non-queries may be refused (a C06 finding); it must not run them
    env.count("cmp_rows")
    after = (lc.execute("SELECT COUNT(*) FROM ORDERS").fetchall(), hc.execute("SELECT COUNT(*) FROM ORDERS").fetchall())
    made = [bool(core.run_stmt(c_, "SELECT 1 FROM MADE_BY_DESCRIBE")["ok"]) for c_ in (lc, hc)]
    if after != before or any(made):
        side = "http" if (after[1] != before[1] or made[1]) else "in-process"
        env.witness(f"C17/describe/executes-the-statement/{side}", f"ORDERS row counts before {before} after {after}; MADE_BY_DESCRIBE exists (in-process, http) = {made}")
        _resync()
    env.nontrivial(("describe", case["seed"]))


def _tokens(case: dict, env: core.Env) -> None:
    import requests

    r = random.Random(case["seed"])
    server = _state["server"]
    base = f"http://127.0.0.1:{_state['port']}"
    conn = _connect_http(isolated=True)
    try:
        cur = conn.cursor()
        cur.execute("SET tokvar = 7")
        keys_before = set(server.sessions)
        states_before = {t: core.session_state(c) for t, c in server.sessions.items()}
        good = next(iter(keys_before))
        body = gzip.compress(json.dumps({"sqlText": "SET tokvar = 666"}).encode())
        variants = {
            "missing": {},
            "empty": {"Authorization": ""},
            "unknown": {"Authorization": 'Snowflake Token="' + "x" * 43 + '"'},
            "truncated": {"Authorization": 'Snowflake Token="' + good[: len(good) // 2] + '"'},
            "no-quotes": {"Authorization": f"Snowflake Token={good}"},
            "wrong-scheme": {"Authorization": f'Bearer "{good}"'},
            "case-changed": {"Authorization": 'Snowflake Token="' + good.swapcase() + '"'},
            "extra-char": {"Authorization": 'Snowflake Token="' + good + 'z"'},
        }
        for name, headers in variants.items():
            env.count("cmp_401")
            headers = dict(headers)
            headers["Content-Type"] = "application/json"
            headers["Content-Encoding"] = "gzip"
            resp = requests.post(f"{base}/queries/v1/query-request", data=body, headers=headers, timeout=10)
            accepted_by_design = name in ("wrong-scheme",) and resp.status_code == 200
            if resp.status_code != 401 and not accepted_by_design:
                env.witness(f"C17/tokens/not-refused/{name}", f"status {resp.status_code}: {resp.text[:200]}")
            if set(server.sessions) != keys_before:
                env.witness(f"C17/tokens/session-table-changed/{name}", f"{len(keys_before)} -> {len(server.sessions)}")
            after = {t: core.session_state(c) for t, c in server.sessions.items() if t in states_before}
            if after != states_before and not accepted_by_design:
                env.witness(f"C17/tokens/refused-request-touched-a-session/{name}", "session state changed")
        if cur.execute("SELECT $tokvar").fetchall() != [(7,)]:
            env.witness("C17/tokens/session-variable-changed", "tokvar != 7 after refused requests")
        env.nontrivial(("tokens", case["seed"], r.random()))
    finally:
        conn.close()
