"""C20 scenarios that run in a fresh interpreter each, so that the import state is that of a user's process
(nothing of snowflake's or fakesnow's sub-modules need be loaded before patch() is entered)."""

from __future__ import annotations

import json
import os
import subprocess
import sys
from typing import Any

from fsverif import core

FRESH = ["lazy-import-inside-block", "from-import-extra-target-not-yet-loaded", "command-line-script", "nested-attempts", "body-exception",
         "extra-targets-in-a-module-imported-by-another-target", "open-transaction-at-exit-with-db-path", "refused-nested-attempt-with-unloaded-extra-target"]
PRES = ["nothing-imported", "connector-imported", "pandas_tools-imported"]

PRELUDE = '''
import json, os, sys
out = {"checks": []}
def check(name, ok, detail=""):
    out["checks"].append([name, bool(ok), str(detail)[:300]])
PRE = __PRE__
if PRE == "connector-imported":
    import snowflake.connector
elif PRE == "pandas_tools-imported":
    import snowflake.connector, snowflake.connector.pandas_tools
import fakesnow
def use_fakes(connect, write_pandas):
    import pandas as pd
    c = connect(database="db1", schema="s1")
    c.cursor().execute("create table t (ID int, S varchar)")
    r = write_pandas(c, pd.DataFrame({"ID": [1, 2], "S": ["a", "b"]}), "T")
    rows = c.cursor().execute("select count(*) from t").fetchall()
    return rows == [(2,)] and bool(r[0])
'''

USER_SCRIPT = '''
import sys, json
import snowflake.connector
from snowflake.connector.pandas_tools import write_pandas
import pandas as pd
c = snowflake.connector.connect(database="db1", schema="s1")
c.cursor().execute("create table t (ID int)")
write_pandas(c, pd.DataFrame({"ID": [1, 2, 3]}), "T")
print(json.dumps({"argv": sys.argv[1:], "rows": c.cursor().execute("select count(*) from t").fetchall()}))
'''

BODY = {
    "lazy-import-inside-block": '''
with fakesnow.patch():
    import snowflake.connector
    from snowflake.connector.pandas_tools import write_pandas
    import snowflake.connector.pandas_tools as pt
    try:
        check("fakes-work-inside", use_fakes(snowflake.connector.connect, write_pandas))
    except Exception as e:
        check("fakes-work-inside", False, f"{type(e).__name__}: {e}")
    check("module-attribute-is-fake-inside", type(pt.write_pandas).__name__ == "MagicMock", type(pt.write_pandas).__name__)
check("connect-restored", type(snowflake.connector.connect).__name__ == "function", type(snowflake.connector.connect).__name__)
check("write_pandas-restored", type(pt.write_pandas).__name__ == "function", type(pt.write_pandas).__name__)
''',
    "from-import-extra-target-not-yet-loaded": '''
sys.path.insert(0, __TARGETS__)
try:
    with fakesnow.patch(["fsverif_helper_b.connect", "fsverif_helper_b.write_pandas"]):
        import fsverif_helper_b as hb
        try:
            check("fakes-work-inside", use_fakes(hb.connect, hb.write_pandas))
        except Exception as e:
            check("fakes-work-inside", False, f"{type(e).__name__}: {e}")
    import snowflake.connector, snowflake.connector.pandas_tools as pt
    check("extra-connect-restored", hb.connect is snowflake.connector.connect)
    check("extra-write_pandas-restored", hb.write_pandas is pt.write_pandas)
    check("connect-restored", type(snowflake.connector.connect).__name__ == "function")
except Exception as e:
    check("patch-with-extra-targets-entered", False, f"{type(e).__name__}: {e}")
''',
    "command-line-script": '''
import tempfile, io, contextlib
d = tempfile.mkdtemp()
script = os.path.join(d, "user_script.py")
open(script, "w").write(__USER_SCRIPT__)
import fakesnow.cli
buf = io.StringIO()
try:
    with contextlib.redirect_stdout(buf):
        fakesnow.cli.main([script, "--flag", "value"])
    got = json.loads(buf.getvalue().strip().splitlines()[-1])
    check("script-ran-on-fakes", got["rows"] == [[3]], got)
    check("script-argv", got["argv"] == ["--flag", "value"], got["argv"])
except BaseException as e:
    check("script-ran-on-fakes", False, f"{type(e).__name__}: {e} :: {buf.getvalue()[-200:]}")
import snowflake.connector
check("connect-restored", type(snowflake.connector.connect).__name__ == "function")
''',
    "extra-targets-in-a-module-imported-by-another-target": '''
sys.path.insert(0, __TARGETS__)
targets = ["fsverif_helper_e.connect", "fsverif_helper_f.connect", "fsverif_helper_f.write_pandas"]
for attempt in (1, 2):
    try:
        with fakesnow.patch(targets):
            import fsverif_helper_e as he, fsverif_helper_f as hf
            try:
                check(f"fakes-work-inside-{attempt}", use_fakes(hf.connect, hf.write_pandas))
                c = he.connect(database="db1", schema="s1")
                check(f"first-module-fake-inside-{attempt}", c.cursor().execute("select 3").fetchall() == [(3,)])
            except Exception as e:
                check(f"fakes-work-inside-{attempt}", False, f"{type(e).__name__}: {e}")
    except Exception as e:
        check(f"patch-entered-{attempt}", False, f"{type(e).__name__}: {e}")
    import snowflake.connector, snowflake.connector.pandas_tools as pt
    check(f"e.connect-restored-{attempt}", he.connect is snowflake.connector.connect and type(he.connect).__name__ == "function")
    check(f"f.connect-restored-{attempt}", hf.connect is snowflake.connector.connect)
    check(f"f.write_pandas-restored-{attempt}", hf.write_pandas is pt.write_pandas and type(hf.write_pandas).__name__ == "function")
''',
    "open-transaction-at-exit-with-db-path": '''
import tempfile, snowflake.connector
for how in ("normal", "exception"):
    d = tempfile.mkdtemp()
    kept = []
    try:
        with fakesnow.patch(db_path=d):
            c = snowflake.connector.connect(database="db1", schema="s1")
            k = c.cursor()
            k.execute("create table t (id int)")
            k.execute("begin")
            k.execute("insert into t values (1)")
            kept.append(c)
            if how == "exception":
                raise KeyError("boom")
    except KeyError:
        pass
    check(f"connect-restored-{how}", type(snowflake.connector.connect).__name__ == "function")
    try:
        rows = kept[0].cursor().execute("select count(*) from t").fetchall()
        check(f"instance-closed-after-{how}-exit", False, f"a connection of the left block still answers: {rows}")
    except Exception as e:
        check(f"instance-closed-after-{how}-exit", type(e).__name__ == "DatabaseError", type(e).__name__)
    with fakesnow.patch(db_path=d):
        c2 = snowflake.connector.connect(database="db1", schema="s1")
        rows = c2.cursor().execute("select count(*) from t").fetchall()
        check(f"uncommitted-row-absent-after-{how}-exit", rows == [(0,)], rows)
''',
    "refused-nested-attempt-with-unloaded-extra-target": '''
sys.path.insert(0, __TARGETS__)
import snowflake.connector, snowflake.connector.pandas_tools as pt
for how in ("normal", "exception"):
    try:
        with fakesnow.patch():
            try:
                with fakesnow.patch(["fsverif_helper_b.connect", "fsverif_helper_b.write_pandas"]):
                    check(f"nested-attempt-refused-{how}", False, "entered")
            except AssertionError:
                pass
            if how == "exception":
                raise KeyError("boom")
    except KeyError:
        pass
    hb = sys.modules.get("fsverif_helper_b")
    if hb is not None:
        check(f"module-imported-by-refused-attempt-holds-originals-{how}", hb.connect is snowflake.connector.connect and hb.write_pandas is pt.write_pandas,
              f"{type(hb.connect).__name__} / {type(hb.write_pandas).__name__}")
    check(f"connect-restored-{how}", type(snowflake.connector.connect).__name__ == "function")
try:
    with fakesnow.patch(["fsverif_helper_b.connect", "fsverif_helper_b.write_pandas"]):
        import fsverif_helper_b as hb2
        check("fakes-work-inside-later-proper-patch", use_fakes(hb2.connect, hb2.write_pandas))
except Exception as e:
    check("fakes-work-inside-later-proper-patch", False, f"{type(e).__name__}: {e}")
''',
    "nested-attempts": '''
import snowflake.connector
entered = []
with fakesnow.patch():
    for attempt in (1, 2, 3):
        try:
            with fakesnow.patch(create_database_on_connect=False):
                entered.append(attempt)
        except AssertionError:
            pass
        except Exception as e:
            check("nested-refusal-is-an-assertion", False, f"attempt {attempt}: {type(e).__name__}: {e}")
    check("every-nested-attempt-refused", entered == [], f"entered on attempts {entered}")
    check("outer-still-fake-after-refusals", type(snowflake.connector.connect).__name__ == "MagicMock")
    c = snowflake.connector.connect(database="db1", schema="s1")
    check("outer-usable-after-refusals", c.cursor().execute("select 1").fetchall() == [(1,)])
check("connect-restored", type(snowflake.connector.connect).__name__ == "function")
with fakesnow.patch():
    check("re-entry", type(snowflake.connector.connect).__name__ == "MagicMock")
''',
    "body-exception": '''
import snowflake.connector
kept = []
try:
    with fakesnow.patch():
        kept.append(snowflake.connector.connect(database="db1", schema="s1"))
        raise KeyError("boom")
except KeyError:
    pass
check("connect-restored", type(snowflake.connector.connect).__name__ == "function")
try:
    kept[0].cursor().execute("select 1")
    check("instance-closed-after-exception", False, "a connection of the left block still works")
except Exception as e:
    check("instance-closed-after-exception", type(e).__name__ == "DatabaseError", type(e).__name__)
with fakesnow.patch():
    check("re-entry", type(snowflake.connector.connect).__name__ == "MagicMock")
''',
}


def run_fresh(case: dict, env: core.Env, targets_dir: str, cwd: str) -> None:
    scen, pre = case["scenario"], case["pre"]
    code = PRELUDE.replace("__PRE__", repr(pre)) + BODY[scen].replace("__TARGETS__", repr(targets_dir)).replace("__USER_SCRIPT__", repr(USER_SCRIPT))
    code += "\nprint('FSVERIF-RESULT ' + json.dumps(out))\n"
    repo = os.environ.get("FSVERIF_REPO", "/repo")
    envv = {**os.environ, "PYTHONPATH": repo, "PYTHONDONTWRITEBYTECODE": "1"}
    env.count("cmp_fresh_process")
    env.cover("fresh", f"{scen}/{pre}")
    try:
        pr = subprocess.run([sys.executable, "-B", "-c", code], capture_output=True, text=True, timeout=120, env=envv, cwd=cwd)
    except subprocess.TimeoutExpired:
        raise core.Inconclusive("fresh-interpreter scenario watchdog") from None
    line = next((ln for ln in pr.stdout.splitlines() if ln.startswith("FSVERIF-RESULT ")), None)
    if line is None:
        env.witness(f"C20/fresh-process/{scen}/crashed", f"pre={pre} rc={pr.returncode}: {pr.stderr[-500:]}")
        return
    res: dict[str, Any] = json.loads(line[len("FSVERIF-RESULT "):])
    if not res["checks"]:
        raise core.Inconclusive("fresh-interpreter scenario evaluated nothing")
    for name, ok, detail in res["checks"]:
        env.count("cmp_inside" if "inside" in name else "cmp_after_exit")
        if not ok:
            env.witness(f"C20/fresh-process/{scen}/{name}/{pre}", detail)
    env.nontrivial(("fresh", scen, pre))
