"""C19 Concurrent sessions behave as if their statements ran one at a time.

Layer 1 - deterministic schedule exploration: every session thread is parked at every engine
call by the tap's gate and a controller runs exactly one thread at a time following an
enumerated schedule (all schedules with a bounded number of preemptions).
Layer 2 - free-running stress with yield injection at the tap.
Layer 3 - concurrent logins and queries against the HTTP server.
Oracle: no exception in any thread, no lost insert, every reader observation is one a serial
order could produce (no half-done multi-step statement), own markers only."""

from __future__ import annotations

import itertools
import os
import random
import sys
import threading
import time
from typing import Any, Callable

from fsverif import core, tap

ID = "C19"
LEVEL = "exploration"
BUDGET = {"quick": 85, "thorough": 800}
RULE = (
    "layer 1: scenario (scripts of 2-3 sessions: racing auto-creating connects, unique-id inserts, CREATE TABLE with comment and "
    "VARCHAR lengths against a metadata reader, MERGE against a reader, own-table DDL+DML) x every schedule of the sessions' "
    "engine calls with <=2 preemptions (quick; <=3 in thorough for the short scenarios), executed deterministically through the "
    "tap gate; layer 2: free-running rounds of 8-16 threads with yield injection; layer 3: concurrent server logins/queries. "
    "Non-trivial = a schedule with at least one preemption whose executed interleaving (sequence of thread ids per engine call) "
    "is new; distinct = distinct executed interleavings per scenario."
)
REQUIRED = ["schedules_executed", "cmp_no_exception", "cmp_conservation", "cmp_reader_observation", "cmp_final_state", "stress_rounds", "server_rounds"]
ASSUMPTIONS = [
    "scripts of different sessions commute (unique ids, own tables), so one reference outcome stands for every serial order; "
    "reader observations are checked against the set {before, after} of the writer's statement",
    "a controller/thread watchdog expiry is inconclusive (never a violation)",
]

WATCHDOG = 30.0


BLOCKED_AFTER = 3.0  # seconds without reaching an engine call before a thread counts as blocked on some unknown lock
LOCK_GRACE = 0.05  # a thread whose innermost Python frame is FakeSnow.connect (waiting for the connect lock) is blocked at once


def _waits_for_connect_lock(ident: int | None) -> bool:
    """True if that thread's innermost Python frame is FakeSnow.connect, i.e. it sits in the C-level acquire of the connect
    lock (once it has the lock, the innermost frame is the connection's __init__ or deeper)."""
    fr = sys._current_frames().get(ident) if ident is not None else None  # noqa: SLF001
    return fr is not None and fr.f_code.co_name == "connect" and fr.f_code.co_filename.endswith("instance.py")


class Deadlock(Exception):
    pass


class Sched:
    """Runs managed threads one engine call at a time."""

    def __init__(self, n: int):
        self.n = n
        self.cv = threading.Condition()
        self.turn: int | None = None
        self.state = ["new"] * n
        self.errors: list[BaseException | None] = [None] * n
        self.index: dict[int, int] = {}
        self.trace: list[int] = []
        self.blocked_events = 0
        self.ident_of: dict[int, int] = {}

    def gate(self, i: int) -> None:
        with self.cv:
            self.state[i] = "parked"
            self.cv.notify_all()
            t0 = time.time()
            while self.turn != i:
                if not self.cv.wait(timeout=1.0) and time.time() - t0 > WATCHDOG:
                    raise Deadlock(f"thread {i} never got a turn")
            self.turn = None
            self.state[i] = "running"

    def hook(self, phase: str, t: Any, method: str, sql: Any) -> None:
        if phase != "before" or method not in ("execute",):
            return
        i = self.index.get(threading.get_ident())
        if i is not None:
            self.gate(i)

    def run(self, bodies: list[Callable[[], None]], plan: list[tuple[int, int]]) -> None:
        def wrap(i: int) -> None:
            self.index[threading.get_ident()] = i
            self.ident_of[i] = threading.get_ident()
            try:
                self.gate(i)  # initial park
                bodies[i]()
            except BaseException as e:  # noqa: BLE001
                self.errors[i] = e
            finally:
                with self.cv:
                    self.state[i] = "done"
                    self.cv.notify_all()

        threads = [threading.Thread(target=wrap, args=(i,), daemon=True) for i in range(self.n)]
        tap.HOOK = self.hook
        try:
            for th in threads:
                th.start()
            with self.cv:
                self._wait(lambda: all(s in ("parked", "done") for s in self.state))
            cur = 0
            step = 0
            plan_d = dict(plan)
            while True:
                with self.cv:
                    runnable = [i for i in range(self.n) if self.state[i] == "parked"]
                    if not runnable:
                        if any(s == "blocked" for s in self.state):
                            # everybody left waits on a lock of the code under test: whoever holds it is neither parked
                            # nor done, so it is one of the blocked ones getting on with it; wait for it to show up
                            self._wait(lambda: any(s == "parked" for s in self.state) or all(s == "done" for s in self.state))
                            continue
                        break
                    if step in plan_d and plan_d[step] in runnable:
                        cur = plan_d[step]
                    elif cur not in runnable:
                        cur = runnable[0]
                    self.trace.append(cur)
                    self.turn = cur
                    self.cv.notify_all()
                    c = cur
                    # the thread runs to its next engine call, or finishes - or it blocks on a lock held by a parked thread
                    # (FakeSnow.connect serialises connects): then it is set aside and somebody else gets the turn, as an
                    # operating system scheduler would do; it parks at its next engine call once it got the lock
                    t0 = time.time()
                    while not (self.turn is None and self.state[c] in ("parked", "done")):
                        self.cv.wait(timeout=0.05)
                        waited = time.time() - t0
                        if self.turn is None and self.state[c] == "running" and any(s == "parked" for j, s in enumerate(self.state) if j != c) and (
                            waited > BLOCKED_AFTER or (waited > LOCK_GRACE and _waits_for_connect_lock(self.ident_of.get(c)))
                        ):
                            self.state[c] = "blocked"
                            self.blocked_events += 1
                            break
                        if time.time() - t0 > WATCHDOG:
                            raise Deadlock("controller watchdog")
                step += 1
        finally:
            tap.HOOK = None
        for th in threads:
            th.join(timeout=WATCHDOG)
            if th.is_alive():
                raise Deadlock("thread did not finish")

    def _wait(self, pred: Callable[[], bool]) -> None:
        t0 = time.time()
        while not pred():
            if not self.cv.wait(timeout=1.0) and time.time() - t0 > WATCHDOG:
                raise Deadlock("controller watchdog")


# ---------------------------------------------------------------------------
# scenarios: build(fs) -> (bodies, check(env, fs, sched, tag))
# ---------------------------------------------------------------------------
def _exc_tag(e: BaseException) -> str:
    m = str(e)
    for pat in ("already exists", "write-write conflict", "Conflict on tuple", "does not exist", "TransactionContext"):
        if pat.lower() in m.lower():
            return type(e).__name__ + ":" + pat.replace(" ", "-")
    return type(e).__name__


def sc_connect_same(fs: Any, k: int = 2):
    out: list[Any] = [None] * k

    def body(i: int) -> Callable[[], None]:
        def f() -> None:
            c = fs.connect("racedb", "races")
            out[i] = c
            c.cursor().execute(f"CREATE TABLE IF NOT EXISTS OWN{i} (ID INT)")
            c.cursor().execute(f"INSERT INTO OWN{i} VALUES ({i})")
        return f

    def check(env: core.Env, sched: Sched, name: str) -> None:
        env.count("cmp_final_state")
        snap = core.snapshot(fs, include_fs=False)
        for i in range(k):
            if sched.errors[i] is None and snap["rows"].get(f"RACEDB.RACES.OWN{i}") != {f"({i},)": 1}:
                env.witness(f"C19/{name}/final-state", f"OWN{i} = {snap['rows'].get(f'RACEDB.RACES.OWN{i}')} trace={sched.trace}")
    return [body(i) for i in range(k)], check


def sc_connect_builtin_schema(fs: Any):
    """One session's connect creates a new database while another connects to the same database naming a schema the engine
    provides from the moment the database is attached (information_schema, main): the second session, once connected, finds the
    database completely set up."""
    def creator() -> None:
        c = fs.connect("freshdb", "app")
        c.cursor().execute("CREATE TABLE NOTES (ID INT, S VARCHAR(7)) COMMENT = 'notes'")
        c.cursor().execute("INSERT INTO NOTES VALUES (1, 'x')")

    def other(schema: str) -> Callable[[], None]:
        def f() -> None:
            c = fs.connect("freshdb", schema)
            got = c.cursor().execute("SELECT database_name FROM information_schema.databases WHERE database_name = 'FRESHDB'").fetchall()
            assert got == [("FRESHDB",)], f"information_schema.databases answers {got}"
            c.cursor().execute("CREATE SCHEMA IF NOT EXISTS FRESHDB.SIDE")
            c.cursor().execute(f"CREATE TABLE FRESHDB.SIDE.T_{schema.upper()} (ID INT, S VARCHAR(9)) COMMENT = 'side'")
            cm = c.cursor().execute(f"SELECT comment FROM FRESHDB.information_schema.tables WHERE table_name = 'T_{schema.upper()}'").fetchall()
            assert cm == [("side",)], f"comment of the table just made reads {cm}"
        return f

    def check(env: core.Env, sched: Sched, name: str) -> None:
        env.count("cmp_final_state")
        snap = core.snapshot(fs, include_fs=False)
        if sched.errors[0] is None and snap["rows"].get("FRESHDB.APP.NOTES") != {"(1, 'x')": 1}:
            env.witness(f"C19/{name}/final-state", f"NOTES = {snap['rows'].get('FRESHDB.APP.NOTES')} trace={sched.trace}")
    return [creator, other("information_schema"), other("main")], check


def sc_connect_diff(fs: Any):
    def body(i: int) -> Callable[[], None]:
        def f() -> None:
            c = fs.connect(f"dbx{i}", "sx")
            c.cursor().execute("CREATE TABLE T (ID INT)")
            c.cursor().execute(f"INSERT INTO T VALUES ({i})")
            got = c.cursor().execute("SELECT ID FROM T").fetchall()
            assert got == [(i,)], f"cross-delivery: session {i} read {got}"
        return f

    def check(env: core.Env, sched: Sched, name: str) -> None:
        env.count("cmp_final_state")
        snap = core.snapshot(fs, include_fs=False)
        for i in range(2):
            if sched.errors[i] is None and snap["rows"].get(f"DBX{i}.SX.T") != {f"({i},)": 1}:
                env.witness(f"C19/{name}/final-state", f"{snap['rows']}")
    return [body(0), body(1)], check


def sc_inserts(fs: Any, k: int = 2):
    conns = [fs.connect("db1", "s1") for _ in range(k)]
    conns[0].cursor().execute("CREATE TABLE SHARED (ID INT, WHO INT)")

    def body(i: int) -> Callable[[], None]:
        def f() -> None:
            cur = conns[i].cursor()
            for j in range(3):
                cur.execute(f"INSERT INTO SHARED VALUES ({i * 100 + j}, {i})")
            mine = sorted(cur.execute(f"SELECT ID FROM SHARED WHERE WHO = {i}").fetchall())
            assert mine == [(i * 100 + j,) for j in range(3)], f"own rows {mine}"
        return f

    def check(env: core.Env, sched: Sched, name: str) -> None:
        env.count("cmp_conservation")
        rows = core.snapshot(fs, include_fs=False)["rows"].get("DB1.S1.SHARED", {})
        want = {f"({i * 100 + j}, {i})": 1 for i in range(k) for j in range(3) if sched.errors[i] is None}
        have = {r: c for r, c in rows.items()}
        missing = {r for r in want if r not in have}
        dup = {r for r, c in have.items() if c > 1}
        if missing or dup:
            env.witness(f"C19/{name}/{'lost-insert' if missing else 'duplicated-insert'}", f"missing {missing} dup {dup} trace={sched.trace}")
    return [body(i) for i in range(k)], check


def sc_create_vs_reader(fs: Any):
    cw, cr = fs.connect("db1", "s1"), fs.connect("db1", "s1")
    seen: list[Any] = []

    def writer() -> None:
        cw.cursor().execute("CREATE TABLE TA (ID INT, S VARCHAR(10), U VARCHAR(7)) COMMENT = 'ca'")

    def reader() -> None:
        for _ in range(3):
            cur = cr.cursor()
            t = cur.execute("SELECT comment FROM information_schema.tables WHERE table_name = 'TA' AND table_schema = 'S1'").fetchall()
            c = cur.execute("SELECT column_name, character_maximum_length FROM information_schema.columns WHERE table_name = 'TA' AND table_schema = 'S1' "
                            "AND data_type = 'TEXT' ORDER BY 1").fetchall()
            seen.append((t, c))

    def check(env: core.Env, sched: Sched, name: str) -> None:
        for t, c in seen:
            env.count("cmp_reader_observation")
            ok_t = t in ([], [("ca",)])
            ok_c = c in ([], [("S", 10), ("U", 7)])
            if not ok_t:
                env.witness(f"C19/{name}/half-done-create-table/comment-not-yet-recorded", f"reader saw table TA with comment {t} trace={sched.trace}")
            if not ok_c:
                env.witness(f"C19/{name}/half-done-create-table/lengths-not-yet-recorded", f"reader saw TA text columns {c} trace={sched.trace}")
    return [writer, reader], check


def sc_merge_vs_reader(fs: Any):
    cw, cr = fs.connect("db1", "s1"), fs.connect("db1", "s1")
    cur = cw.cursor()
    cur.execute("CREATE TABLE TGT (K INT, V VARCHAR)")
    cur.execute("INSERT INTO TGT VALUES (1, 'old1'), (2, 'old2'), (3, 'old3')")
    cur.execute("CREATE TABLE SRC (K INT, V VARCHAR)")
    cur.execute("INSERT INTO SRC VALUES (1, 'new1'), (3, 'del'), (9, 'ins9')")
    before = [(1, "old1"), (2, "old2"), (3, "old3")]
    after = [(1, "new1"), (2, "old2"), (9, "ins9")]
    seen: list[Any] = []

    def writer() -> None:
        cw.cursor().execute("MERGE INTO TGT USING SRC ON TGT.K = SRC.K WHEN MATCHED AND SRC.V = 'del' THEN DELETE "
                            "WHEN MATCHED THEN UPDATE SET V = SRC.V WHEN NOT MATCHED THEN INSERT (K, V) VALUES (SRC.K, SRC.V)")

    def reader() -> None:
        for _ in range(4):
            seen.append(sorted(cr.cursor().execute("SELECT K, V FROM TGT").fetchall()))

    def check(env: core.Env, sched: Sched, name: str) -> None:
        for s in seen:
            env.count("cmp_reader_observation")
            if s not in (before, after):
                env.witness(f"C19/{name}/torn-merge-observed", f"reader saw {s} trace={sched.trace}")
        env.count("cmp_final_state")
        if sched.errors[0] is None:
            fin = sorted(core.raw_root(fs).cursor().execute("select K, V from DB1.S1.TGT").fetchall())
            if fin != after:
                env.witness(f"C19/{name}/final-state", f"{fin}")
    return [writer, reader], check


def sc_merge_vs_merge(fs: Any):
    conns = [fs.connect("db1", "s1") for _ in range(2)]
    c0 = conns[0].cursor()
    res: list[Any] = [None, None]
    for i in range(2):
        c0.execute(f"CREATE TABLE TGT{i} (K INT, V VARCHAR)")
        c0.execute(f"INSERT INTO TGT{i} VALUES (1, 'old'), (2, 'old'), (3, 'old')")
        c0.execute(f"CREATE TABLE SRC{i} (K INT, V VARCHAR)")
    c0.execute("INSERT INTO SRC0 VALUES (1, 'upd'), (3, 'del'), (9, 'ins')")
    c0.execute("INSERT INTO SRC1 VALUES (2, 'upd'), (7, 'ins'), (8, 'ins'), (6, 'ins')")
    want = [([(1, "upd"), (2, "old"), (9, "ins")], (1, 1, 1)), ([(1, "old"), (2, "upd"), (3, "old"), (6, "ins"), (7, "ins"), (8, "ins")], (3, 1, 0))]

    def body(i: int) -> Callable[[], None]:
        def f() -> None:
            cur = conns[i].cursor()
            cur.execute(f"MERGE INTO TGT{i} t USING SRC{i} s ON t.K = s.K WHEN MATCHED AND s.V = 'del' THEN DELETE "
                        "WHEN MATCHED THEN UPDATE SET V = s.V WHEN NOT MATCHED THEN INSERT (K, V) VALUES (s.K, s.V)")
            res[i] = tuple(int(x) for x in cur.fetchall()[0])
        return f

    def check(env: core.Env, sched: Sched, name: str) -> None:
        for i in range(2):
            if sched.errors[i] is not None:
                continue
            env.count("cmp_final_state")
            got = sorted(core.raw_root(fs).cursor().execute(f"select K, V from DB1.S1.TGT{i}").fetchall())
            if got != want[i][0]:
                env.witness(f"C19/{name}/target-has-other-sessions-rows", f"TGT{i} = {got} expected {want[i][0]} trace={sched.trace}")
            elif res[i] != want[i][1]:
                env.witness(f"C19/{name}/counts-from-other-session", f"session {i} counts {res[i]} expected {want[i][1]} trace={sched.trace}")
    return [body(0), body(1)], check


def sc_txn_pk_conflict(fs: Any):
    """Two overlapping explicit transactions insert one common key into a PRIMARY KEY table. Whoever loses may be told so
    at the INSERT or at the COMMIT; what may not happen: a session told that everything succeeded does not find its rows,
    or a session told it failed leaves rows behind."""
    conns = [fs.connect("db1", "s1") for _ in range(2)]
    conns[0].cursor().execute("CREATE TABLE ACCT (ID INT PRIMARY KEY, WHO INT)")
    told: list[Any] = [None, None]

    def body(i: int) -> Callable[[], None]:
        def f() -> None:
            cur = conns[i].cursor()
            try:
                cur.execute("BEGIN")
                cur.execute(f"INSERT INTO ACCT VALUES (1, {i}), ({10 + i}, {i}), ({20 + i}, {i})")
                cur.execute("COMMIT")
                told[i] = ("ok", cur.fetchall())
            except Exception as e:  # noqa: BLE001
                told[i] = ("failed", f"{type(e).__name__}: {str(e)[:120]}")
                try:
                    cur.execute("ROLLBACK")
                except Exception:  # noqa: BLE001
                    pass
        return f

    def check(env: core.Env, sched: Sched, name: str) -> None:
        env.count("cmp_conservation")
        rows = sorted(core.raw_root(fs).cursor().execute("select ID, WHO from DB1.S1.ACCT").fetchall())
        for i in range(2):
            mine = [r_ for r_ in rows if r_[1] == i]
            if told[i] is None:
                continue
            if told[i][0] == "ok" and len(mine) != 3:
                env.witness(f"C19/{name}/commit-reported-success-but-rows-lost", f"session {i} told {told[i]} but ACCT holds {mine} of its rows; all={rows} trace={sched.trace}")
            if told[i][0] == "failed" and mine:
                env.witness(f"C19/{name}/failed-transaction-left-rows", f"session {i} told {told[i]} but ACCT holds {mine}; trace={sched.trace}")
        if sum(1 for r_ in rows if r_[0] == 1) > 1:
            env.witness(f"C19/{name}/primary-key-duplicated", f"{rows} trace={sched.trace}")
        if all(t is not None and t[0] == "failed" for t in told):
            env.count("both_transactions_failed")
    return [body(0), body(1)], check


def sc_drop_vs_replace(fs: Any):
    """One session drops a table while another re-creates the same name with a comment and VARCHAR lengths: the outcome
    is that of one of the two serial orders (no table; or the new table with all of its metadata)."""
    ca, cb, cr = fs.connect("db1", "s1"), fs.connect("db1", "s1"), fs.connect("db1", "s1")
    ca.cursor().execute("CREATE TABLE TD (ID INT, OLD VARCHAR(3)) COMMENT = 'old'")

    def dropper() -> None:
        ca.cursor().execute("DROP TABLE TD")

    def creator() -> None:
        cb.cursor().execute("CREATE OR REPLACE TABLE TD (ID INT, S VARCHAR(7)) COMMENT = 'new'")

    def check(env: core.Env, sched: Sched, name: str) -> None:
        env.count("cmp_final_state")
        cur = cr.cursor()
        t = cur.execute("SELECT comment FROM information_schema.tables WHERE table_name = 'TD' AND table_schema = 'S1'").fetchall()
        c = cur.execute("SELECT column_name, character_maximum_length FROM information_schema.columns WHERE table_name = 'TD' AND table_schema = 'S1' "
                        "AND data_type = 'TEXT' ORDER BY 1").fetchall()
        side = core.raw_root(fs).cursor().execute("select count(*) from DB1.information_schema._fs_tables_ext where ext_table_name = 'TD'").fetchall()
        if (t, c) == ([], []):
            if side != [(0,)] and False:
                pass
            return
        if (t, c) != ([("new",)], [("S", 7)]):
            env.witness(f"C19/{name}/outcome-of-no-serial-order", f"TD ends with comment {t} and text columns {c}; trace={sched.trace}")
    return [dropper, creator], check


def sc_connect_vs_create_statements(fs: Any):
    """A connect that auto-creates database and schema races with CREATE DATABASE / CREATE SCHEMA IF NOT EXISTS statements of
    another session: everything succeeds in either order, and both sessions can work in the schema afterwards."""
    cb = fs.connect()
    got: list[Any] = [None]

    def connector() -> None:
        c = fs.connect("racedb2", "rs")
        got[0] = c
        cur = c.cursor()
        cur.execute("CREATE TABLE IF NOT EXISTS BYCONN (ID INT, S VARCHAR(4)) COMMENT = 'c'")
        cur.execute("INSERT INTO BYCONN (ID) VALUES (1)")

    def creator() -> None:
        cur = cb.cursor()
        cur.execute("CREATE DATABASE IF NOT EXISTS RACEDB2")
        cur.execute("CREATE SCHEMA IF NOT EXISTS RACEDB2.RS")
        cur.execute("CREATE TABLE IF NOT EXISTS RACEDB2.RS.BYSTMT (ID INT, S VARCHAR(4)) COMMENT = 's'")
        cur.execute("INSERT INTO RACEDB2.RS.BYSTMT (ID) VALUES (2)")

    def check(env: core.Env, sched: Sched, name: str) -> None:
        env.count("cmp_final_state")
        if any(e is not None for e in sched.errors):
            return
        c = got[0]
        if c is None or (c.database, c.schema, c.database_set, c.schema_set) != ("RACEDB2", "RS", True, True):
            env.witness(f"C19/{name}/connect-without-context", f"{None if c is None else (c.database, c.schema, c.database_set, c.schema_set)} trace={sched.trace}")
            return
        rows = sorted(c.cursor().execute("SELECT ID FROM BYCONN UNION ALL SELECT ID FROM BYSTMT").fetchall())
        if rows != [(1,), (2,)]:
            env.witness(f"C19/{name}/rows", f"{rows} trace={sched.trace}")
    return [connector, creator], check


def sc_connect_other_case(fs: Any):
    """Two connects to the same new database and schema, spelled in different letter case."""
    spell = [("racedb3", "rs"), ("RACEDB3", "RS")]
    got: list[Any] = [None, None]

    def body(i: int) -> Callable[[], None]:
        def f() -> None:
            c = fs.connect(*spell[i])
            got[i] = c
            cur = c.cursor()
            cur.execute(f"CREATE TABLE IF NOT EXISTS OWN{i} (ID INT, S VARCHAR(6)) COMMENT = 'own {i}'")
            cur.execute(f"INSERT INTO OWN{i} (ID) VALUES ({i})")
            d = cur.execute(f"SELECT comment FROM information_schema.tables WHERE table_name = 'OWN{i}' AND table_schema = 'RS'").fetchall()
            assert d == [(f"own {i}",)], f"session {i} reads comment {d}"
        return f

    def check(env: core.Env, sched: Sched, name: str) -> None:
        env.count("cmp_final_state")
        for i, c in enumerate(got):
            if sched.errors[i] is None and (c is None or (c.database, c.schema, c.database_set, c.schema_set) != ("RACEDB3", "RS", True, True)):
                env.witness(f"C19/{name}/connect-without-context", f"session {i}: {None if c is None else (c.database, c.schema, c.database_set, c.schema_set)}")
    return [body(0), body(1)], check


def sc_same_create_if_not_exists(fs: Any):
    """Two sessions run the identical CREATE TABLE IF NOT EXISTS (comment, VARCHAR lengths): both succeed in any order."""
    conns = [fs.connect("db1", "s1") for _ in range(2)]

    def body(i: int) -> Callable[[], None]:
        def f() -> None:
            cur = conns[i].cursor()
            cur.execute("CREATE TABLE IF NOT EXISTS SHARED_DEF (ID INT, NAME VARCHAR(12), NOTE VARCHAR(3)) COMMENT = 'shared definition'")
            cur.execute(f"INSERT INTO SHARED_DEF (ID) VALUES ({i})")
        return f

    def check(env: core.Env, sched: Sched, name: str) -> None:
        env.count("cmp_final_state")
        cur = conns[0].cursor()
        t = cur.execute("SELECT comment FROM information_schema.tables WHERE table_name = 'SHARED_DEF' AND table_schema = 'S1'").fetchall()
        c = cur.execute("SELECT column_name, character_maximum_length FROM information_schema.columns WHERE table_name = 'SHARED_DEF' AND table_schema = 'S1' "
                        "AND data_type = 'TEXT' ORDER BY 1").fetchall()
        if all(e is None for e in sched.errors) and (t, c) != ([("shared definition",)], [("NAME", 12), ("NOTE", 3)]):
            env.witness(f"C19/{name}/metadata-of-no-serial-order", f"comment {t} text columns {c} trace={sched.trace}")
        rows = sorted(cur.execute("SELECT ID FROM SHARED_DEF").fetchall())
        want = [(i,) for i in range(2) if sched.errors[i] is None]
        if rows != want:
            env.witness(f"C19/{name}/lost-insert", f"{rows} expected {want} trace={sched.trace}")
    return [body(0), body(1)], check


def sc_patch_first_connects(fs: Any):
    """The first two connect() calls under one fakesnow.patch() overlap: both sessions are sessions of the same instance."""
    import snowflake.connector

    import fakesnow

    cm = fakesnow.patch()
    cm.__enter__()
    got: list[Any] = [None, None]

    def body(i: int) -> Callable[[], None]:
        def f() -> None:
            c = snowflake.connector.connect(database="pdb", schema="ps")
            got[i] = c
            cur = c.cursor()
            cur.execute("CREATE TABLE IF NOT EXISTS SHARED_P (ID INT, WHO INT)")
            for j in range(2):
                cur.execute(f"INSERT INTO SHARED_P VALUES ({i * 10 + j}, {i})")
        return f

    def check(env: core.Env, sched: Sched, name: str) -> None:
        env.count("cmp_conservation")
        if any(e is not None for e in sched.errors) or None in got:
            return
        want = sorted((i * 10 + j, i) for i in range(2) for j in range(2))
        for i in range(2):
            rows = sorted(got[i].cursor().execute("SELECT ID, WHO FROM SHARED_P").fetchall())
            if rows != want:
                env.witness(f"C19/{name}/sessions-of-one-patch-do-not-share-data", f"session {i} reads {rows} expected {want} trace={sched.trace}")
                break

    def cleanup() -> None:
        cm.__exit__(None, None, None)

    return [body(0), body(1)], check, cleanup


def sc_own_tables(fs: Any, k: int = 3):
    conns = [fs.connect("db1", "s1") for _ in range(k)]

    def body(i: int) -> Callable[[], None]:
        def f() -> None:
            cur = conns[i].cursor()
            cur.execute(f"CREATE TABLE MINE{i} (ID INT, M VARCHAR(5)) COMMENT = 'm{i}'")
            cur.execute(f"INSERT INTO MINE{i} VALUES ({i}, 'm{i}')")
            cur.execute(f"UPDATE MINE{i} SET ID = ID + 10")
            got = cur.execute(f"SELECT ID, M FROM MINE{i}").fetchall()
            assert got == [(i + 10, f"m{i}")], f"session {i} read {got}"
            d = cur.execute(f"SELECT comment FROM information_schema.tables WHERE table_name = 'MINE{i}'").fetchall()
            assert d == [(f"m{i}",)], f"session {i} comment {d}"
        return f

    def check(env: core.Env, sched: Sched, name: str) -> None:
        env.count("cmp_final_state")
    return [body(i) for i in range(k)], check


def sc_bulk_load_vs_reader(fs: Any):
    """write_pandas is one load (one COPY INTO in Snowflake), however the caller asks for it to be chunked: a reader
    sees none of it or all of it."""
    import pandas as pd

    import fakesnow.fakes as fakes
    cw, cr = fs.connect("db1", "s1"), fs.connect("db1", "s1")
    cw.cursor().execute("CREATE TABLE LOADED (ID INT, AMOUNT INT)")
    df = pd.DataFrame({"ID": list(range(6)), "AMOUNT": [10, 20, 30, 40, 50, 60]})
    seen: list[Any] = []
    res: list[Any] = []

    def writer() -> None:
        res.append(fakes.write_pandas(cw, df, "LOADED", chunk_size=2))

    def reader() -> None:
        for _ in range(4):
            seen.append(cr.cursor().execute("SELECT COUNT(*), COALESCE(SUM(AMOUNT), 0) FROM LOADED").fetchall())

    def check(env: core.Env, sched: Sched, name: str) -> None:
        for s_ in seen:
            env.count("cmp_reader_observation")
            if s_ not in ([(0, 0)], [(6, 210)]):
                env.witness(f"C19/{name}/half-loaded-dataframe-observed", f"reader saw {s_} trace={sched.trace}")
        env.count("cmp_final_state")
        if sched.errors[0] is None:
            fin = core.raw_root(fs).cursor().execute("select count(*), sum(AMOUNT) from DB1.S1.LOADED").fetchall()
            if fin != [(6, 210)] or not res or res[0][0] is not True or res[0][2] != 6:
                env.witness(f"C19/{name}/final-state", f"{fin} result {res}")
    return [writer, reader], check


def sc_executemany_vs_update(fs: Any):
    """executemany is its statements one after the other; a statement of another session on the same rows runs before,
    between or after them - nobody fails, and every increment is there at the end."""
    ca, cb = fs.connect("db1", "s1"), fs.connect("db1", "s1")
    c0 = ca.cursor()
    c0.execute("CREATE TABLE BAL (ID INT, V INT)")
    c0.execute("INSERT INTO BAL VALUES (1, 0), (2, 0), (3, 0)")

    def batch() -> None:
        ca.cursor().executemany("UPDATE BAL SET V = V + %s WHERE ID = %s", [(1, 1), (1, 2), (1, 3)])

    def other() -> None:
        cur = cb.cursor()
        cur.execute("UPDATE BAL SET V = V + 10 WHERE ID = 2")
        cur.execute("UPDATE BAL SET V = V + 100 WHERE ID = 3")

    def check(env: core.Env, sched: Sched, name: str) -> None:
        env.count("cmp_final_state")
        if sched.errors[0] is None and sched.errors[1] is None:
            fin = sorted(core.raw_root(fs).cursor().execute("select ID, V from DB1.S1.BAL").fetchall())
            if fin != [(1, 1), (2, 11), (3, 101)]:
                env.witness(f"C19/{name}/lost-update", f"{fin} trace={sched.trace}")
    return [batch, other], check


SCENARIOS: dict[str, Callable] = {
    "bulk-load-vs-reader": sc_bulk_load_vs_reader,
    "executemany-vs-update-same-rows": sc_executemany_vs_update,
    "connect-same-db-schema": sc_connect_same,
    "connect-same-db-schema-x3": lambda fs: sc_connect_same(fs, 3),
    "connect-different-dbs": sc_connect_diff,
    "connect-new-database-vs-connect-to-its-builtin-schemas": sc_connect_builtin_schema,
    "inserts-shared-table": sc_inserts,
    "inserts-shared-table-x3": lambda fs: sc_inserts(fs, 3),
    "create-table-vs-metadata-reader": sc_create_vs_reader,
    "merge-vs-reader": sc_merge_vs_reader,
    "merge-vs-merge": sc_merge_vs_merge,
    "own-tables-x3": sc_own_tables,
    "txn-pk-conflict": sc_txn_pk_conflict,
    "drop-vs-replace-same-table": sc_drop_vs_replace,
    "connect-same-db-other-letter-case": sc_connect_other_case,
    "first-connects-under-one-patch": sc_patch_first_connects,
    "same-create-table-if-not-exists": sc_same_create_if_not_exists,
    "connect-vs-create-statements": sc_connect_vs_create_statements,
}


def gen_cases(tier: str, seed: int):
    r = random.Random(f"{seed}:C19")
    # the few slow layer-2/3 cases first, so that a time budget only ever trims the schedule enumeration
    for i in range(6 if tier == "quick" else 60):
        yield {"kind": "server", "clients": r.choice([6, 10]), "seed": r.randrange(1 << 30), "lines": (0, 0.1)[i % 2]}
    for i in range(20 if tier == "quick" else 600):
        yield {"kind": "stress", "threads": r.choice([8, 12, 16]), "seed": r.randrange(1 << 30), "lines": (0, 0.05, 0, 0.3)[i % 4]}
    nchunks = 6 if tier == "quick" else 24
    for ch in range(nchunks):
        for name in SCENARIOS:
            # chunks of the plan space: (scenario, chunk index); plans are enumerated inside the case from the baseline length
            yield {"kind": "sched", "scenario": name, "chunk": ch, "nchunks": nchunks, "maxp": 2 if tier == "quick" else 3,
                   "cap": 40 if tier == "quick" else 900, "seed": r.randrange(1 << 30)}


def _run_schedule(env: core.Env, name: str, plan: list[tuple[int, int]]) -> tuple[list[int], int]:
    fs = core.new_fs()
    cleanup: Any = None
    try:
        built = SCENARIOS[name](fs)
        bodies, check = built[0], built[1]
        if len(built) > 2:
            cleanup = built[2]
        sched = Sched(len(bodies))
        try:
            sched.run(bodies, plan)
        except Deadlock as e:
            raise core.Inconclusive(f"scheduler watchdog: {e}") from None
        env.count("schedules_executed")
        if sched.blocked_events:
            env.count("schedules_with_thread_blocked_on_connect_lock")
        env.count("cmp_no_exception")
        if any(isinstance(e, Deadlock) for e in sched.errors):
            raise core.Inconclusive(f"scheduler watchdog inside a session thread: {[str(e) for e in sched.errors if e]} plan={plan}")
        for i, e in enumerate(sched.errors):
            if e is not None:
                kind = "assertion" if isinstance(e, AssertionError) else core.exc_kind(e)
                env.witness(f"C19/{name}/exception-in-session/{kind}-{_exc_tag(e)}", f"session {i}: {type(e).__name__}: {str(e)[:300]} plan={plan} trace={sched.trace}")
        check(env, sched, name)
        return sched.trace, len(bodies)
    finally:
        if cleanup is not None:
            try:
                cleanup()
            except Exception:  # noqa: BLE001
                pass
        try:
            fs.duck_conn.close()
        except Exception:  # noqa: BLE001
            pass


_seen_traces: dict[str, set] = {}


def run_case(case: dict, env: core.Env) -> None:
    if case["kind"] == "stress":
        return _stress(case, env)
    if case["kind"] == "server":
        return _server(case, env)
    name = case["scenario"]
    base, k = _run_schedule(env, name, [])
    total = len(base)
    env.cover("scenario_steps", f"{name}:{total}")
    plans: list[list[tuple[int, int]]] = []
    steps = range(1, total + 2)
    for s1 in steps:
        for t1 in range(k):
            plans.append([(s1, t1)])
    if case["maxp"] >= 2:
        for s1, s2 in itertools.combinations(steps, 2):
            for t1 in range(k):
                for t2 in range(k):
                    if t1 != t2:
                        plans.append([(s1, t1), (s2, t2)])
    if case["maxp"] >= 3 and total <= 14:
        for s1, s2, s3 in itertools.combinations(steps, 3):
            for t1, t2, t3 in itertools.product(range(k), repeat=3):
                if t1 != t2 and t2 != t3:
                    plans.append([(s1, t1), (s2, t2), (s3, t3)])
    mine = [p for j, p in enumerate(plans) if j % case["nchunks"] == case["chunk"]]
    if len(mine) > case["cap"]:
        mine = random.Random(case["seed"]).sample(mine, case["cap"])
    seen = _seen_traces.setdefault(name, set())
    for plan in mine:
        trace, _ = _run_schedule(env, name, plan)
        key = tuple(trace)
        if key not in seen:
            seen.add(key)
            env.count("distinct_interleavings")
            if key != tuple(base):
                env.nontrivial((name, key))
    env.cover("plans_per_scenario", name, len(mine))


# ---------------------------------------------------------------------------
class LineYield:
    """Yield injection inside fakesnow's own Python frames: a sys.monitoring LINE callback gives the GIL away (sleep(0)) at a
    seeded random fraction of the statement starts executed in fakesnow/*.py, so that threads also change places *between* two
    engine calls, where fakesnow touches the state its sessions share in Python (server.sessions, module-level expressions,
    the instance).  Lines of other files are switched off at their first event.  Changes scheduling only, never behaviour."""

    TOOL = 3

    def __init__(self, seed: int, prob: float, env: core.Env):
        self.rnd, self.prob, self.env = random.Random(seed), prob, env
        self.lines = self.yields = 0
        self.on = False

    def __enter__(self) -> "LineYield":
        if not self.prob or not hasattr(sys, "monitoring"):
            return self
        import fakesnow

        mon = sys.monitoring
        prefix = os.path.dirname(os.path.abspath(fakesnow.__file__)) + os.sep
        rnd, prob = self.rnd, self.prob

        def on_line(code: Any, lineno: int) -> Any:
            if not code.co_filename.startswith(prefix):
                return mon.DISABLE
            self.lines += 1
            if rnd.random() < prob:
                self.yields += 1
                time.sleep(0)
            return None

        mon.use_tool_id(self.TOOL, "fsverif-line-yield")
        mon.register_callback(self.TOOL, mon.events.LINE, on_line)
        mon.set_events(self.TOOL, mon.events.LINE)
        self.on = True
        return self

    def __exit__(self, *a: Any) -> None:
        if self.on:
            mon = sys.monitoring
            mon.set_events(self.TOOL, 0)
            mon.register_callback(self.TOOL, mon.events.LINE, None)
            mon.free_tool_id(self.TOOL)
            mon.restart_events()
            self.env.count("rounds_with_line_yield_injection")
            self.env.count("line_events_seen_in_fakesnow_frames", self.lines)
            self.env.count("line_yields_injected", self.yields)


def _stress(case: dict, env: core.Env) -> None:
    r = random.Random(case["seed"])
    n = case["threads"]
    fs = core.new_fs()
    errors: list[tuple[int, BaseException]] = []
    gave_up: list[int] = []
    barrier = threading.Barrier(n)
    order: list[int] = []
    olock = threading.Lock()
    mode = r.choice(["same", "mixed", "db-ready", "db-ready"])
    if mode == "db-ready":
        # the database is there already (an earlier connect has finished with it); the sessions then arrive together, several
        # times over, each time asking for a schema that does not exist yet
        fs.connect("stressdb", "first")

    def hook(phase: str, t: Any, method: str, sql: Any) -> None:
        if phase == "before" and method == "execute":
            with olock:
                order.append(threading.get_ident() % 997)
            time.sleep(0)

    def body(i: int) -> None:
        try:
            barrier.wait(timeout=WATCHDOG)
            db = "stressdb" if mode in ("same", "db-ready") or i % 2 == 0 else f"stress{i}"
            if mode == "db-ready":
                for wave in range(6):
                    cw = fs.connect(db, f"wave{wave}")
                    got = cw.cursor().execute("SELECT CURRENT_SCHEMA()").fetchall()
                    assert got == [(f"WAVE{wave}",)], f"thread {i} wave {wave}: current schema {got}"
                    barrier.wait(timeout=WATCHDOG)
            c = fs.connect(db, "ss")
            cur = c.cursor()
            cur.execute("CREATE TABLE IF NOT EXISTS SHARED (ID INT, WHO INT)")
            cur.execute(f"CREATE TABLE MINE{i} (ID INT, S VARCHAR(9)) COMMENT = 'c{i}'")
            for j in range(4):
                cur.execute(f"INSERT INTO SHARED VALUES ({i * 1000 + j}, {i})")
                cur.execute(f"INSERT INTO MINE{i} VALUES ({j}, 's{i}')")
            got = cur.execute(f"SELECT DISTINCT S FROM MINE{i}").fetchall()
            assert got == [(f"s{i}",)], f"thread {i} read {got}"
            mine = cur.execute(f"SELECT COUNT(*) FROM SHARED WHERE WHO = {i}").fetchall()
            assert mine == [(4,)], f"thread {i} sees {mine} of its own inserts"
            cm = cur.execute(f"SELECT comment FROM information_schema.tables WHERE table_name = 'MINE{i}' AND table_catalog = '{db.upper()}'").fetchall()
            assert cm == [(f"c{i}",)], f"thread {i} comment {cm}"
        except threading.BrokenBarrierError:
            gave_up.append(i)  # another thread failed and let everybody go; that one's error is the witness
        except BaseException as e:  # noqa: BLE001
            errors.append((i, e))
            barrier.abort()

    threads = [threading.Thread(target=body, args=(i,), daemon=True) for i in range(n)]
    tap.HOOK = hook
    try:
        with LineYield(case["seed"], case.get("lines", 0), env):
            for th in threads:
                th.start()
            for th in threads:
                th.join(timeout=WATCHDOG * 2)
                if th.is_alive():
                    raise core.Inconclusive("stress thread watchdog")
    finally:
        tap.HOOK = None
    env.count("stress_rounds")
    env.count("cmp_no_exception")
    for i, e in errors:
        kind = "assertion" if isinstance(e, AssertionError) else core.exc_kind(e)
        stage = "connect" if "connect" in "".join(__import__("traceback").format_tb(e.__traceback__)) and "conn.py" in "".join(__import__("traceback").format_tb(e.__traceback__)) else "statement"
        env.witness(f"C19/stress/exception-in-thread/{stage}/{kind}-{_exc_tag(e)}", f"thread {i} ({mode}): {type(e).__name__}: {str(e)[:300]}")
    env.count("cmp_conservation")
    snap = core.snapshot(fs, include_fs=False)
    ok_threads = {i for i in range(n)} - {i for i, _ in errors} - set(gave_up)
    for key, rows in snap["rows"].items():
        if key.endswith(".SHARED"):
            for rk, cnt in rows.items():
                if cnt != 1:
                    env.witness("C19/stress/duplicated-insert", f"{key}: {rk} x{cnt}")
    allshared = {rk for key, rows in snap["rows"].items() if key.endswith(".SHARED") for rk in rows}
    for i in ok_threads:
        for j in range(4):
            if f"({i * 1000 + j}, {i})" not in allshared:
                env.witness("C19/stress/lost-insert", f"thread {i} insert {j} missing")
                break
    env.nontrivial(("stress", hash(tuple(order)) % (1 << 30)))
    env.count("distinct_stress_orders")
    fs.duck_conn.close()


# ---------------------------------------------------------------------------
_srv: dict[str, Any] = {}


def _ensure_server() -> None:
    if _srv:
        return
    from fsverif.props import c17

    c17.setup_worker(core.Env("C17", "quick", 0)) if False else None
    import uvicorn

    import fakesnow.server as server

    port = c17._free_port()
    srv = uvicorn.Server(uvicorn.Config(server.app, host="127.0.0.1", port=port, log_level="error"))
    th = threading.Thread(target=srv.run, name="fsverif-uvicorn", daemon=True)
    th.start()
    t0 = time.time()
    while not srv.started:
        if time.time() - t0 > 30:
            raise RuntimeError("uvicorn did not start")
        time.sleep(0.05)
    _srv.update(server=server, srv=srv, port=port)


def teardown_worker(env: core.Env) -> None:
    if _srv:
        _srv["srv"].should_exit = True


def _server(case: dict, env: core.Env) -> None:
    import snowflake.connector

    _ensure_server()
    n = case["clients"]
    uid = case["seed"] % 10**8
    errors: list[tuple[int, BaseException]] = []
    barrier = threading.Barrier(n)

    def client(i: int) -> None:
        try:
            barrier.wait(timeout=WATCHDOG)
            c = snowflake.connector.connect(user="fake", password="snow", account="fakesnow", host="127.0.0.1", port=_srv["port"], protocol="http",
                                            session_parameters={"CLIENT_OUT_OF_BAND_TELEMETRY_ENABLED": False}, database=f"srv{uid}", schema="sc",
                                            network_timeout=20, login_timeout=20)
            cur = c.cursor()
            cur.execute("CREATE TABLE IF NOT EXISTS SHARED (ID INT, WHO INT)")
            for j in range(3):
                cur.execute(f"INSERT INTO SHARED VALUES ({i * 100 + j}, {i})")
                got = cur.execute(f"SELECT {i} AS WHO, '{uid}-{i}-{j}' AS MARK").fetchall()
                assert got == [(i, f"{uid}-{i}-{j}")], f"client {i} got another session's result {got}"
            mine = cur.execute(f"SELECT COUNT(*) FROM SHARED WHERE WHO = {i}").fetchall()
            assert mine == [(3,)], f"client {i} sees {mine}"
            c.close()
        except BaseException as e:  # noqa: BLE001
            errors.append((i, e))

    threads = [threading.Thread(target=client, args=(i,), daemon=True) for i in range(n)]
    with LineYield(case["seed"], case.get("lines", 0), env):
        for th in threads:
            th.start()
        for th in threads:
            th.join(timeout=WATCHDOG * 3)
            if th.is_alive():
                raise core.Inconclusive("server client watchdog")
    env.count("server_rounds")
    env.count("cmp_no_exception")
    for i, e in errors:
        kind = "assertion" if isinstance(e, AssertionError) else type(e).__name__
        env.witness(f"C19/server/exception-in-client/{kind}", f"client {i}: {type(e).__name__}: {str(e)[:300]}")
    env.count("cmp_conservation")
    rows = core.raw_root(_srv["server"].shared_fs).cursor().execute(f"select ID, WHO from SRV{uid}.SC.SHARED").fetchall() if not errors or len(errors) < n else []
    have = sorted(rows)
    ok = {i for i in range(n)} - {i for i, _ in errors}
    want = sorted((i * 100 + j, i) for i in ok for j in range(3))
    if not set(want) <= set(have) or len(have) != len(set(have)):
        env.witness("C19/server/lost-or-duplicated-insert", f"have {len(have)} want {len(want)}")
    env.nontrivial(("server", case["seed"]))
