"""C11 VARIANT/OBJECT/ARRAY values behave as JSON documents.

Monitor: JsonNav - the same generated document is navigated in Python and through the real
statements (literal PARSE_JSON and VARIANT column sources; colon / bracket / GET_PATH path
syntaxes; casts; string functions; comparisons, boolean and arithmetic contexts; ARRAY_SIZE,
FLATTEN, OBJECT_CONSTRUCT[_KEEP_NULL], array literals, TRY_PARSE_JSON)."""

from __future__ import annotations

import json
import random
from typing import Any

from fsverif import core

ID = "C11"
LEVEL = "exploration"
BUDGET = {"quick": 80, "thorough": 600}
RULE = (
    "case = (generated JSON document of depth <=4 / width <=4 with escapes, numbers, booleans, nulls, empty containers; a path "
    "that is present / missing / of the wrong kind; source literal or VARIANT column; path syntax colon / bracket / GET_PATH; an "
    "operation: extract, cast to text/int/float/number/boolean, UPPER/LOWER/TRIM, ARRAY_SIZE, comparison inside AND/OR/NOT, "
    "arithmetic, FLATTEN, OBJECT_CONSTRUCT[_KEEP_NULL], array literal, TRY_PARSE_JSON). Non-trivial = the Python navigation "
    "yields a non-NULL expected value that was compared; distinct = distinct (document, path, operation, source, syntax)."
)
REQUIRED = ["cmp_extract", "cmp_cast_text", "cmp_cast_number", "cmp_cased", "cmp_array_size", "cmp_boolean_context", "cmp_arithmetic",
            "cmp_flatten", "cmp_object_construct", "cmp_missing_is_null", "cmp_column_vs_literal"]
ASSUMPTIONS = [
    "extracting a JSON null may come back as SQL NULL or as the VARIANT text 'null'; cast to text it must be NULL",
    "floats in documents are non-integral dyadic values (2.5, 0.125) so that their text form is unambiguous",
    "object keys are ASCII identifiers (case-sensitive); strings may contain quotes, backslashes, newlines and non-ASCII text",
]

KEYS = ["a", "b", "c", "A", "key", "n1"]
STRS = ["x", "hello", "MiXed", "  pad  ", "it's", "qu\"ote", "back\\slash", "new\nline", "é✓", "", "null", "true", "12"]
NUMS = [0, 1, -1, 42, 2**31, 2.5, -0.125, 1e3 + 0.5]


def gen_doc(r: random.Random, depth: int = 0) -> Any:
    x = r.random()
    if depth < 3 and x < 0.3:
        return {k: gen_doc(r, depth + 1) for k in r.sample(KEYS, r.randint(0, 4))}
    if depth < 3 and x < 0.5:
        return [gen_doc(r, depth + 1) for _ in range(r.randint(0, 4))]
    if x < 0.65:
        return r.choice(STRS)
    if x < 0.85:
        return r.choice(NUMS)
    if x < 0.93:
        return r.choice([True, False])
    return None


def all_paths(doc: Any, prefix: tuple = ()) -> list:
    out = [prefix] if prefix else []
    if isinstance(doc, dict):
        for k, v in doc.items():
            out += all_paths(v, prefix + (k,))
    elif isinstance(doc, list):
        for i, v in enumerate(doc):
            out += all_paths(v, prefix + (i,))
    return out


def nav(doc: Any, path: list) -> tuple[bool, Any]:
    cur = doc
    for p in path:
        if isinstance(p, int):
            if not isinstance(cur, list) or not 0 <= p < len(cur):
                return False, None
            cur = cur[p]
        else:
            if not isinstance(cur, dict) or p not in cur:
                return False, None
            cur = cur[p]
    return True, cur


OPS = ["extract", "cast_text", "cast_int", "cast_float", "cast_number", "cast_bool", "upper", "lower", "trim", "array_size",
       "bool_ctx", "arith", "flatten", "eq_text"]


def gen_cases(tier: str, seed: int):
    r = random.Random(f"{seed}:C11")
    n = 9000 if tier == "quick" else 120000
    for i in range(n):
        x = r.random()
        if x < 0.06:
            yield {"kind": "object_construct", "seed": r.randrange(1 << 30)}
            continue
        if x < 0.09:
            yield {"kind": "try_parse", "seed": r.randrange(1 << 30)}
            continue
        if x < 0.12:
            yield {"kind": "array_literal", "seed": r.randrange(1 << 30)}
            continue
        if x < 0.135:
            yield {"kind": "pandas_docs", "seed": r.randrange(1 << 30)}
            continue
        if x < 0.142:
            yield {"kind": "variable_paths", "seed": r.randrange(1 << 30), "source": r.choice(["literal", "column"])}
            continue
        if x < 0.15:
            yield {"kind": r.choice(["flatten2", "nested_cast", "case_variant_paths"]), "seed": r.randrange(1 << 30), "source": r.choice(["literal", "column"])}
            continue
        if x < 0.19:
            # object keys that look like numbers are keys all the same: v['2023'] is a key look-up, v[2023] an array position
            doc = {k: gen_doc(r, 2) for k in r.sample(["7", "2023", "0", "a", "b"], 3)}
            key = r.choice(list(doc) + ["1", "2023"])
            yield {"kind": "nav", "doc": json.dumps(doc), "path": [key], "op": r.choice(["extract", "cast_int", "cast_float", "cast_bool", "array_size", "bool_ctx", "arith"]),
                   "source": r.choice(["literal", "column"]), "syntax": "bracket", "k": r.randint(-2, 50)}
            continue
        doc = {k: gen_doc(r, 1) for k in r.sample(KEYS, r.randint(1, 4))} if r.random() < 0.8 else [gen_doc(r, 1) for _ in range(r.randint(0, 4))]
        paths = all_paths(doc)
        y = r.random()
        if paths and y < 0.7:
            path = list(r.choice(paths))
        elif paths and y < 0.85:  # wrong kind / out of range at the end
            path = list(r.choice(paths))[:-1] + [r.choice(["zz", 0, 7, "a", "A"])]
        else:
            path = [r.choice(KEYS + [0, 1, "missing"]) for _ in range(r.randint(1, 3))]
        if not path:
            path = ["a"]
        yield {"kind": "nav", "doc": json.dumps(doc), "path": path, "op": r.choice(OPS), "source": r.choice(["literal", "column"]),
               "syntax": r.choice(["colon", "bracket", "get_path"]), "k": r.randint(-2, 50)}


def qs(s: str) -> str:
    return "'" + s.replace("\\", "\\\\").replace("'", "''") + "'"


def path_sql(src: str, path: list, syntax: str) -> str:
    if syntax == "bracket":
        return src + "".join(f"[{p}]" if isinstance(p, int) else f"['{p}']" for p in path)
    text = ""
    for i, p in enumerate(path):
        if isinstance(p, int):
            text += f"[{p}]"
        else:
            text += ("." if i else "") + p
    if syntax == "get_path":
        return f"GET_PATH({src}, '{text}')"
    # colon syntax needs the first element to be a key
    if isinstance(path[0], int):
        return src + "".join(f"[{p}]" if isinstance(p, int) else f"['{p}']" for p in path)
    return f"{src}:{text}"


_state: dict[str, Any] = {}


def setup_worker(env: core.Env) -> None:
    fs = core.new_fs()
    conn = fs.connect("db1", "s1")
    conn.cursor().execute("CREATE TABLE DOCS (ID INT, V VARIANT)")
    _state.update(fs=fs, conn=conn, n=0)


def _json_eq(got: Any, want: Any) -> bool:
    if not isinstance(got, str):
        return False
    try:
        g = json.loads(got)
    except ValueError:
        return False
    return g == want and type(g) is type(want)


def _kind(v: Any, found: bool) -> str:
    if not found:
        return "missing"
    return {type(None): "json-null", bool: "bool", int: "int", float: "float", str: "string", dict: "object", list: "array"}[type(v)]


def run_case(case: dict, env: core.Env) -> None:
    kind = case["kind"]
    cur = _state["conn"].cursor()
    if kind == "object_construct":
        return _object_construct(case, env, cur)
    if kind == "try_parse":
        return _try_parse(case, env, cur)
    if kind == "array_literal":
        return _array_literal(case, env, cur)
    if kind == "pandas_docs":
        return _pandas_docs(case, env, cur)
    if kind == "variable_paths":
        return _variable_paths(case, env, cur)
    if kind == "flatten2":
        return _flatten2(case, env, cur)
    if kind == "case_variant_paths":
        return _case_variant_paths(case, env, cur)
    if kind == "nested_cast":
        return _nested_cast(case, env, cur)
    doc = json.loads(case["doc"])
    path, op, source, syntax = case["path"], case["op"], case["source"], case["syntax"]
    found, val = nav(doc, path)
    vk = _kind(val, found)
    env.cover("op_x_kind", f"{op}/{vk}")
    env.cover("source_x_syntax", f"{source}/{syntax}")
    lit_src = f"PARSE_JSON({qs(case['doc'])})"
    _state["n"] += 1
    rid = _state["n"]
    cur.execute("DELETE FROM DOCS")
    o = core.run_stmt(cur, f"INSERT INTO DOCS SELECT {rid}, {lit_src}")
    if not o["ok"]:
        env.witness(f"C11/store-rejected/{o['exc']['cls']}", f"{case['doc']}: {o['exc']['msg'][:200]}")
        return
    src = lit_src if source == "literal" else "V"
    frm = "" if source == "literal" else f" FROM DOCS WHERE ID = {rid}"
    ex = path_sql(src, path, syntax)
    tagk = f"{op}/{vk}/{syntax}"

    def run(expr: str) -> tuple[bool, Any, dict]:
        out = core.run_stmt(cur, f"SELECT {expr} AS X{frm}")
        if not out["ok"]:
            return False, None, out
        return True, (out["rows"][0][0] if out["rows"] else "<<no row>>"), out

    # paths written with brackets, or starting with an array index, are a region where nearly every operation is
    # affected by the same few rewrite limitations: witnesses there are keyed coarsely (family + rejected/wrong-value)
    weak_region = syntax == "bracket" or isinstance(path[0], int)
    shape = f"{'bracket' if syntax == 'bracket' else 'index-first'}-{'nested' if len(path) > 1 else 'single'}"

    def wit(key: str, detail: str) -> None:
        if weak_region:
            family = key.split("/")[1]
            # chained brackets fail for every operation (keyed by shape only); a single bracket works except for a few families
            env.witness(f"C11/{shape}-path/wrong-value" + ("/" + key.split("/", 1)[1] if shape.endswith("single") else ""), detail)
        else:
            env.witness(key, detail)

    def rejected(out: dict, what: str) -> None:
        msg = out["exc"]["msg"]
        family = what.split("/")[0].split("-form")[0]
        if "Failed to cast value to numerical" in msg:
            env.witness("C11/rejected/variant-number-does-not-fit-int32", f"{out['sql']}: {msg[:250]}")
        elif weak_region:
            env.witness(f"C11/{shape}-path/rejected" + (f"/{family}/{vk}" if shape.endswith("single") else ""), f"{out['sql']}: {msg[:250]}")
        else:
            env.witness(f"C11/rejected/{what}/{out['exc']['cls']}", f"{out['sql']}: {msg[:250]}")

    compared = False
    if op == "extract":
        ok, got, out = run(ex)
        if not ok:
            return rejected(out, tagk)
        env.count("cmp_extract")
        if not found:
            env.count("cmp_missing_is_null")
            if got is not None:
                wit(f"C11/extract/missing-path-not-null/{syntax}", f"{out['sql']} -> {got!r}")
        elif val is None:
            if got not in (None, "null"):
                wit(f"C11/extract/json-null/{syntax}", f"{out['sql']} -> {got!r}")
        elif not _json_eq(got, val):
            wit(f"C11/extract/value/{vk}/{syntax}", f"{out['sql']} -> {got!r} expected JSON {val!r}")
        compared = found and val is not None
    elif op in ("cast_text", "eq_text"):
        ok, got, out = run(f"{ex}::VARCHAR")
        if not ok:
            return rejected(out, tagk)
        env.count("cmp_cast_text")
        if not found or val is None:
            env.count("cmp_missing_is_null")
            if got is not None:
                wit(f"C11/cast-text/{vk}-not-null/{syntax}", f"{out['sql']} -> {got!r}")
        elif isinstance(val, str):
            if got != val:
                wit(f"C11/cast-text/string-quotes-or-escapes/{syntax}", f"{out['sql']} -> {got!r} expected {val!r}")
            elif op == "eq_text":
                ok2, got2, out2 = run(f"{ex}::VARCHAR = {qs(val)}")
                env.count("cmp_boolean_context")
                if ok2 and got2 is not True:
                    wit(f"C11/cast-text/equality-with-literal/{syntax}", f"{out2['sql']} -> {got2!r}")
        elif isinstance(val, bool):
            if got != ("true" if val else "false"):
                wit(f"C11/cast-text/bool/{syntax}", f"{out['sql']} -> {got!r}")
        elif isinstance(val, (int, float)):
            try:
                num_ok = isinstance(got, str) and float(got) == float(val)
            except ValueError:
                num_ok = False
            if not num_ok:
                wit(f"C11/cast-text/number/{syntax}", f"{out['sql']} -> {got!r} expected text of {val!r}")
        elif not _json_eq(got, val):
            wit(f"C11/cast-text/container/{syntax}", f"{out['sql']} -> {got!r} expected JSON text of {val!r}")
        compared = found and val is not None
    elif op in ("cast_int", "cast_float", "cast_number"):
        target = {"cast_int": "INT", "cast_float": "FLOAT", "cast_number": "NUMBER(20,3)"}[op]
        numeric = found and isinstance(val, (int, float)) and not isinstance(val, bool)
        if found and val is not None and not numeric:
            return  # casting non-numbers: not pinned down by the property
        if op == "cast_int" and numeric and isinstance(val, float):
            return
        ok, got, out = run(f"{ex}::{target}")
        if not ok:
            return rejected(out, tagk)
        env.count("cmp_cast_number")
        if not numeric:
            env.count("cmp_missing_is_null")
            if got is not None:
                wit(f"C11/cast-number/{vk}-not-null/{syntax}", f"{out['sql']} -> {got!r}")
        elif got is None or float(got) != float(val):
            wit(f"C11/cast-number/value/{target.split('(')[0]}/{syntax}", f"{out['sql']} -> {got!r} expected {val!r}")
        elif op == "cast_int" and (isinstance(got, bool) or not isinstance(got, int)):
            wit(f"C11/cast-number/pytype/{type(got).__name__}", f"{out['sql']} -> {got!r}")
        compared = numeric
    elif op == "cast_bool":
        if not (found and isinstance(val, bool)) and found and val is not None:
            return
        ok, got, out = run(f"{ex}::BOOLEAN")
        if not ok:
            return rejected(out, tagk)
        env.count("cmp_cast_number")
        want = val if found and isinstance(val, bool) else None
        if got is not want:
            wit(f"C11/cast-bool/{vk}/{syntax}", f"{out['sql']} -> {got!r} expected {want!r}")
        compared = want is not None
    elif op in ("upper", "lower", "trim"):
        if found and val is not None and not isinstance(val, str):
            return
        fn = op.upper()
        ok, got, out = run(f"{fn}({ex})")
        if not ok:
            return rejected(out, tagk)
        env.count("cmp_cased")
        if not found or val is None:
            if got is not None:
                wit(f"C11/{op}/{vk}-not-null/{syntax}", f"{out['sql']} -> {got!r}")
        else:
            want = val.upper() if op == "upper" else val.lower() if op == "lower" else val.strip(" ")
            if got != want:
                wit(f"C11/{op}/value/{syntax}", f"{out['sql']} -> {got!r} expected {want!r}")
            compared = True
    elif op == "array_size":
        ok, got, out = run(f"ARRAY_SIZE({ex})")
        if not ok:
            return rejected(out, tagk)
        env.count("cmp_array_size")
        want = len(val) if found and isinstance(val, list) else None
        if got != want:
            wit(f"C11/array_size/{vk}/{'empty' if want == 0 else 'non-empty' if want else 'not-an-array'}", f"{out['sql']} -> {got!r} expected {want!r}")
        compared = want is not None
    elif op in ("bool_ctx", "arith"):
        numeric = found and isinstance(val, int) and not isinstance(val, bool)
        if found and val is not None and not numeric:
            return
        k = case["k"]
        v = val if numeric else None
        if op == "arith":
            forms = [(f"{ex}::INT + {k} * 2", None if v is None else v + k * 2), (f"({ex}::INT + 1) * {k}", None if v is None else (v + 1) * k),
                     (f"{k} - {ex}::INT", None if v is None else k - v), (f"-{ex}::INT", None if v is None else -v)]
            env.count("cmp_arithmetic")
        else:
            def tv(a: Any) -> Any:
                return a

            gt = None if v is None else v > k
            eq = None if v is None else v == k
            forms = [
                (f"{ex}::INT > {k}", gt), (f"{ex}::INT = {k}", eq), (f"{ex} = {k}", eq),
                (f"{ex}::INT > {k} AND 1 = 1", gt), (f"1 = 1 AND {ex}::INT > {k}", gt),
                (f"{ex}::INT > {k} OR 1 = 0", gt), (f"NOT {ex}::INT > {k}", None if gt is None else not gt),
                (f"{ex}::INT = {k} OR {ex}::INT > {k}", None if v is None else v >= k),
                (f"{ex}::INT IS NULL", v is None), (f"{ex}::INT IN ({k}, {k + 1})", None if v is None else v in (k, k + 1)),
                (f"CASE WHEN {ex}::INT > {k} THEN 'y' ELSE 'n' END", "y" if gt else "n"),
                (f"{ex}::INT BETWEEN {k} AND {k + 5}", None if v is None else k <= v <= k + 5),
                (f"{ex}::INT NOT BETWEEN {k} AND {k + 5}", None if v is None else not (k <= v <= k + 5)),
            ]
            if v is None or abs(v) < 2**31:
                forms += [(f"{ex} BETWEEN {k} AND {k + 5}", None if v is None else k <= v <= k + 5),
                          (f"{ex} > {k} AND {ex} < {k + 9}", None if v is None else k < v < k + 9)]
            env.count("cmp_boolean_context")
        for i, (expr, want) in enumerate(forms):
            ok, got, out = run(expr)
            if not ok:
                rejected(out, f"{op}-form{i}/{vk}/{syntax}")
                continue
            if got != want or (want is not None and type(got) is not type(want)):
                wit(f"C11/{op}/form{i}/{vk}/{syntax}", f"{out['sql']} -> {got!r} expected {want!r}")
        compared = numeric
    elif op == "flatten":
        if not (found and isinstance(val, list)):
            return
        if source == "literal":
            sql = f"SELECT f.VALUE FROM LATERAL FLATTEN(input => {ex}) f"
        else:
            sql = f"SELECT f.VALUE FROM DOCS d, LATERAL FLATTEN(input => {path_sql('d.V', path, syntax)}) f WHERE d.ID = {rid}"
        out = core.run_stmt(cur, sql)
        if not out["ok"]:
            return rejected(out, f"flatten/{source}/{syntax}")
        env.count("cmp_flatten")
        got_l = [r_[0] for r_ in out["rows"]]
        okk = len(got_l) == len(val) and all((g in (None, "null")) if w is None else _json_eq(g, w) for g, w in zip(got_l, val))
        if not okk:
            wit(f"C11/flatten/{'empty' if not val else 'elements'}/{source}", f"{sql} -> {got_l!r} expected elements {val!r}")
        compared = bool(val)
    # ---- column vs literal must agree (metamorphic) for plain extraction
    if op in ("extract", "cast_text") and found:
        env.count("cmp_column_vs_literal")
        a = core.run_stmt(cur, f"SELECT {path_sql(lit_src, path, syntax)}{'::VARCHAR' if op != 'extract' else ''} AS X")
        b = core.run_stmt(cur, f"SELECT {path_sql('V', path, syntax)}{'::VARCHAR' if op != 'extract' else ''} AS X FROM DOCS WHERE ID = {rid}")
        if a["ok"] and b["ok"] and a["rows"] != b["rows"]:
            if weak_region:
                env.witness(f"C11/{shape}-path/wrong-value" + (f"/column-vs-literal/{vk}" if shape.endswith("single") else ""), f"literal {a['rows']} column {b['rows']} for path {path} of {case['doc']}")
            else:
                env.witness(f"C11/column-vs-literal/{op}/{vk}", f"literal {a['rows']} column {b['rows']} for path {path} of {case['doc']}")
    cur.execute(f"DELETE FROM DOCS WHERE ID = {rid}")
    if compared:
        env.nontrivial((case["doc"], path, op, source, syntax))


_WORDS = ["ann", "bob", "it's", "x y", "", "Ünï", "a,b", "\"q\"", "red", "NULL", "true", "12"]


def _text_of(v: Any) -> Any:
    """VARIANT element -> VARCHAR."""
    if v is None:
        return None
    if isinstance(v, bool):
        return "true" if v else "false"
    if isinstance(v, str):
        return v
    return json.dumps(v)


def _store(cur: Any, doc: Any) -> tuple[int, str]:
    _state["n"] += 1
    rid = _state["n"]
    lit_src = f"PARSE_JSON({qs(json.dumps(doc))})"
    cur.execute("DELETE FROM DOCS")
    cur.execute(f"INSERT INTO DOCS SELECT {rid}, {lit_src}")
    return rid, lit_src


def _variable_paths(case: dict, env: core.Env, cur: Any) -> None:
    """A key, a path or an array position held in a session variable navigates like the same thing written out."""
    r = random.Random(case["seed"])
    doc = {"a": {"b": r.choice(_WORDS), "n": r.randint(0, 99)}, "kind": r.choice(_WORDS), "arr": [r.randint(0, 9) for _ in range(3)]}
    rid, lit_src = _store(cur, doc)
    src = lit_src if case["source"] == "literal" else "V"
    frm = "" if case["source"] == "literal" else f" FROM DOCS WHERE ID = {rid}"
    i = r.randrange(3)
    forms = [
        ("get_path-variable-path", "SET p = 'a.b'", f"GET_PATH({src}, $p)::VARCHAR", f"GET_PATH({src}, 'a.b')::VARCHAR", doc["a"]["b"]),
        ("get_path-variable-key", "SET p = 'kind'", f"GET_PATH({src}, $p)::VARCHAR", f"GET_PATH({src}, 'kind')::VARCHAR", doc["kind"]),
        ("bracket-variable-key", "SET p = 'kind'", f"{src}[$p]::VARCHAR", f"{src}['kind']::VARCHAR", doc["kind"]),
        ("position-variable", f"SET p = {i}", f"{src}:arr[$p]::INT", f"{src}:arr[{i}]::INT", doc["arr"][i]),
        ("compared-with-variable", f"SET p = {qs(doc['kind'])}", f"{src}:kind::VARCHAR = $p", f"{src}:kind::VARCHAR = {qs(doc['kind'])}", True),
    ]
    env.cover("op_x_kind", f"variable_paths/{case['source']}")
    for name, setv, expr, written_out, want in forms:
        cur.execute(setv)
        a = core.run_stmt(cur, f"SELECT {expr} AS X{frm}")
        b = core.run_stmt(cur, f"SELECT {written_out} AS X{frm}")
        env.count("cmp_extract")
        if not b["ok"] or b["rows"] != [(want,)]:
            continue  # the written-out form itself is what the other cases of this property examine
        if not a["ok"]:
            env.witness(f"C11/variable-held-path/rejected/{name}", f"{setv}; {a['sql']}: {a['exc']['msg'][:200]}")
        elif a["rows"] != b["rows"]:
            env.witness(f"C11/variable-held-path/differs-from-written-out/{name}", f"{setv}; {a['sql']} -> {a['rows']} but {b['sql']} -> {b['rows']}")
    env.nontrivial(("variable_paths", json.dumps(doc), case["source"], i))


def _case_variant_paths(case: dict, env: core.Env, cur: Any) -> None:
    """Member names are case-sensitive: the same statement with another spelling of a key is another question, also when it
    is asked on the same connection straight after the first one."""
    r = random.Random(case["seed"])
    base = r.choice(["userId", "Ab", "kEy", "nAme"])
    spellings = [base, base.lower(), base.upper()]
    doc: dict[str, Any] = {}
    for j, k in enumerate(spellings):
        if r.random() < 0.8:
            doc[k] = r.choice([f"{_WORDS[j]}-{j}", j + 1, [j] * (j + 1), {"in": f"{k}-inner"}])
    inner = r.random() < 0.4
    if inner:
        doc = {"wrap": doc}
    rid, lit_src = _store(cur, doc)
    src = lit_src if case["source"] == "literal" else "V"
    frm = "" if case["source"] == "literal" else f" FROM DOCS WHERE ID = {rid}"
    pre = ["wrap"] if inner else []
    form = r.choice(["colon", "colon-cast", "get_path", "get_path-cast", "where", "array_size"])
    order = spellings[:]
    r.shuffle(order)
    order = order + [order[0]]
    env.cover("op_x_kind", f"case_variant_paths/{form}/{case['source']}")
    for k in order:
        found, val = nav(doc, pre + [k])
        dotted = ".".join(pre + [k])
        colon = src + "".join(f":{p_}" for p_ in pre + [k])
        if form == "colon":
            sql, want = f"SELECT {colon} AS X{frm}", (val if found else None)
        elif form == "colon-cast":
            sql, want = f"SELECT {colon}::VARCHAR AS X{frm}", (_text_of(val) if found else None)
        elif form == "get_path":
            sql, want = f"SELECT GET_PATH({src}, '{dotted}') AS X{frm}", (val if found else None)
        elif form == "get_path-cast":
            sql, want = f"SELECT GET_PATH({src}, '{dotted}')::VARCHAR AS X{frm}", (_text_of(val) if found else None)
        elif form == "array_size":
            sql, want = f"SELECT ARRAY_SIZE({colon}) AS X{frm}", (len(val) if found and isinstance(val, list) else None)
        else:
            if case["source"] == "literal":
                sql, want = f"SELECT 1 AS X WHERE {colon} IS NOT NULL", (1 if found else "<<no row>>")
            else:
                sql, want = f"SELECT 1 AS X{frm} AND {colon} IS NOT NULL", (1 if found else "<<no row>>")
        o = core.run_stmt(cur, sql)
        env.count("cmp_extract")
        if not o["ok"]:
            if form == "array_size" and found and isinstance(val, list) and not val:
                continue
            env.witness(f"C11/case-variant-keys/rejected/{form}", f"{sql}: {o['exc']['msg'][:200]}")
            return
        got = o["rows"][0][0] if o["rows"] else "<<no row>>"

        def matches(k_: str) -> bool:
            f_, v_ = nav(doc, pre + [k_])
            if form in ("colon", "get_path"):
                return (got is None) if not f_ or v_ is None else (isinstance(got, str) and _json_eq(got, v_))
            if form in ("colon-cast", "get_path-cast"):
                if not f_ or v_ is None:
                    return got is None
                if isinstance(v_, (list, dict)):
                    try:
                        return isinstance(got, str) and json.loads(got) == v_
                    except ValueError:
                        return False
                return got == _text_of(v_)
            if form == "array_size":
                return got == (len(v_) if f_ and isinstance(v_, list) else None)
            return got == (1 if f_ and v_ is not None else "<<no row>>")

        if not matches(k):
            why = "answers-for-another-spelling-of-the-key" if any(matches(k2) for k2 in spellings if k2 != k) else "wrong-value"
            env.witness(f"C11/case-variant-keys/{why}/{form}", f"{sql} -> {got!r} expected {want!r}; document {json.dumps(doc)}; asked in the order {order}")
            return
    env.nontrivial(("case_variant_paths", json.dumps(doc), form, case["source"], tuple(order)))


def _pandas_docs(case: dict, env: core.Env, cur: Any) -> None:
    """Documents written with write_pandas are the same JSON documents: same keys with different kinds of values in
    different rows, NULL or non-container rows anywhere (also first)."""
    import pandas as pd

    import fakesnow.fakes as fakes

    r = random.Random(case["seed"])
    pool_n = [7, 2.5, "7", True, None, [1, 2], {"x": 1}]
    docs: list[Any] = []
    for _ in range(r.randint(2, 5)):
        y = r.random()
        if y < 0.2:
            docs.append(None)
        elif y < 0.3:
            docs.append([r.choice([1, "a", None]), r.choice([2, "b"])])
        else:
            docs.append({"n": r.choice(pool_n), "tags": r.choice([[1, 2], ["1", "2"], [], [1, "x"]]), "s": r.choice(["x y", "it's", ""])})
    if r.random() < 0.5:
        docs[0] = None
    if not any(isinstance(d, dict) for d in docs):
        docs.append({"n": 7, "tags": [1, 2], "s": "x"})
    cur.execute("CREATE OR REPLACE TABLE PD_DOCS (ID INT, V VARIANT)")
    df = pd.DataFrame({"ID": list(range(len(docs))), "V": docs})
    env.cover("op_x_kind", f"pandas_docs/first-{'null' if docs[0] is None else type(docs[0]).__name__}")
    try:
        fakes.write_pandas(_state["conn"], df, "PD_DOCS")
    except Exception as e:  # noqa: BLE001
        env.witness(f"C11/write_pandas-documents/rejected/{type(e).__name__}", f"{docs!r}: {e}"[:400])
        return
    env.count("cmp_extract")
    rows = cur.execute("SELECT ID, V, V:n, V:tags, V:s::VARCHAR, ARRAY_SIZE(V:tags) FROM PD_DOCS ORDER BY ID").fetchall()
    if len(rows) != len(docs):
        env.witness("C11/write_pandas-documents/row-count", f"{len(rows)} rows for {len(docs)} documents")
        return
    for (i, v, n, tags, s, nt), d in zip(rows, docs):
        def same(got: Any, want: Any) -> bool:
            return (got in (None, "null")) if want is None else _json_eq(got, want)
        isd = isinstance(d, dict)
        bad = None
        if not same(v, d):
            bad = ("document", v, d)
        elif isd and not same(n, d["n"]):
            bad = ("member-" + _kind(d["n"], True), n, d["n"])
        elif isd and not same(tags, d["tags"]):
            bad = ("array-member", tags, d["tags"])
        elif isd and s != d["s"]:
            bad = ("string-member-as-text", s, d["s"])
        elif isd and d["tags"] and nt != len(d["tags"]):
            bad = ("array_size", nt, len(d["tags"]))
        if bad:
            env.witness(f"C11/write_pandas-documents/{bad[0]}", f"wrote {docs!r}; row {i}: read {bad[1]!r} expected {bad[2]!r}")
            break
    env.nontrivial(("pandas_docs", json.dumps(docs)))


def _flatten2(case: dict, env: core.Env, cur: Any) -> None:
    """Two LATERAL FLATTENs in one SELECT: each alias's VALUE::VARCHAR is the element's text."""
    from collections import Counter

    r = random.Random(case["seed"])
    xs = [r.choice(_WORDS) for _ in range(r.randint(1, 3))]
    ys = [r.choice(_WORDS + [7, True]) for _ in range(r.randint(1, 3))]
    doc = {"xs": xs, "ys": ys}
    rid, lit_src = _store(cur, doc)
    a1, a2 = r.choice([("a", "b"), ("f", "g"), ("t", "o")])
    if case["source"] == "literal":
        frm = f"FROM LATERAL FLATTEN(input => {lit_src}:xs) {a1}, LATERAL FLATTEN(input => {lit_src}:ys) {a2}"
    else:
        frm = f"FROM DOCS d, LATERAL FLATTEN(input => d.V:xs) {a1}, LATERAL FLATTEN(input => d.V:ys) {a2} WHERE d.ID = {rid}"
    env.cover("op_x_kind", f"flatten2/{case['source']}")
    sql = f"SELECT {a1}.VALUE::VARCHAR AS X, {a2}.VALUE::VARCHAR AS Y {frm}"
    out = core.run_stmt(cur, sql)
    if not out["ok"]:
        env.witness(f"C11/rejected/flatten-two-laterals/{case['source']}/{out['exc']['cls']}", f"{sql}: {out['exc']['msg'][:250]}")
        return
    env.count("cmp_flatten")
    want = Counter((_text_of(x), _text_of(y)) for x in xs for y in ys)
    got = Counter(tuple(r_) for r_ in out["rows"])
    if got != want:
        which = "first" if Counter(k[0] for k in got.elements()) != Counter(k[0] for k in want.elements()) else "second"
        env.witness(f"C11/flatten-two-laterals/value-cast-text/{which}-alias", f"{sql} -> {sorted(got.elements(), key=repr)!r} expected {sorted(want.elements(), key=repr)!r}")
    # TRIM over a flatten VALUE that is a string gives the trimmed text (no JSON quotes)
    sql3 = f"SELECT TRIM({a1}.VALUE) AS X {frm}"
    o3 = core.run_stmt(cur, sql3)
    if o3["ok"]:
        env.count("cmp_cased")
        want3 = Counter(_text_of(x).strip(" ") for x in xs for _ in ys)
        got3 = Counter(r_[0] for r_ in o3["rows"])
        if got3 != want3:
            env.witness("C11/flatten-two-laterals/trim-of-value", f"{sql3} -> {sorted(got3.elements(), key=repr)!r} expected {sorted(want3.elements(), key=repr)!r}")
    s_y = next((y for y in ys if isinstance(y, str) and y), None)
    if s_y is not None:
        sql2 = f"SELECT COUNT(*) {frm}{' AND' if 'WHERE' in frm else ' WHERE'} {a2}.VALUE::VARCHAR = {qs(s_y)}"
        o2 = core.run_stmt(cur, sql2)
        n = sum(1 for _ in xs for y in ys if _text_of(y) == s_y)
        if o2["ok"] and o2["rows"] != [(n,)]:
            env.witness("C11/flatten-two-laterals/value-cast-text-in-comparison", f"{sql2} -> {o2['rows']} expected {n}")
    env.nontrivial(("flatten2", json.dumps(doc), case["source"], a1))


def _nested_cast(case: dict, env: core.Env, cur: Any) -> None:
    """An extract+cast whose document expression itself contains an extract+cast."""
    r = random.Random(case["seed"])
    inner = {"k": r.choice(_WORDS), "n": r.randint(-5, 500), "b": r.random() < 0.5}
    kind = r.choice(["a", "b"])
    doc = {"kind": kind, "a": {"name": r.choice(_WORDS), "n": 1}, "b": {"name": r.choice(_WORDS), "n": 2}, "payload": json.dumps(inner)}
    rid, lit_src = _store(cur, doc)
    src = lit_src if case["source"] == "literal" else "V"
    frm = "" if case["source"] == "literal" else f" FROM DOCS WHERE ID = {rid}"
    forms = [
        ("double-encoded/text", f"PARSE_JSON({src}:payload::VARCHAR):k::VARCHAR", inner["k"]),
        ("double-encoded/int", f"PARSE_JSON({src}:payload::VARCHAR):n::INT", inner["n"]),
        ("double-encoded/bool", f"PARSE_JSON({src}:payload::VARCHAR):b::BOOLEAN", inner["b"]),
        ("discriminator/text", f"IFF({src}:kind::VARCHAR = 'a', {src}:a, {src}:b):name::VARCHAR", doc[kind]["name"]),
        ("discriminator/int", f"IFF({src}:kind::VARCHAR = 'a', {src}:a, {src}:b):n::INT", doc[kind]["n"]),
        ("case-discriminator/text", f"CASE WHEN {src}:kind::VARCHAR = 'b' THEN {src}:b:name::VARCHAR ELSE UPPER({src}:a:name::VARCHAR) END",
         doc["b"]["name"] if kind == "b" else doc["a"]["name"].upper()),
    ]
    env.cover("op_x_kind", f"nested_cast/{case['source']}")
    for name, expr, want in forms:
        out = core.run_stmt(cur, f"SELECT {expr} AS X{frm}")
        if not out["ok"]:
            env.witness(f"C11/rejected/nested-extract-cast/{name}/{out['exc']['cls']}", f"{out['sql']}: {out['exc']['msg'][:250]}")
            continue
        env.count("cmp_cast_text")
        got = out["rows"][0][0] if out["rows"] else "<<no row>>"
        if got != want or type(got) is not type(want):
            env.witness(f"C11/nested-extract-cast/{name}", f"{out['sql']} -> {got!r} expected {want!r}")
    env.nontrivial(("nested_cast", json.dumps(doc), case["source"]))


def _object_construct(case: dict, env: core.Env, cur: Any) -> None:
    r = random.Random(case["seed"])
    pairs = []
    for k in r.sample(["a", "b", "c", "d"], r.randint(0, 4)):
        v = r.choice([1, 2.5, "x", "it's", True, None, None])
        pairs.append((k, v))
    keep = r.random() < 0.4

    def lit(v: Any) -> str:
        return "NULL" if v is None else ("TRUE" if v is True else "FALSE" if v is False else qs(v) if isinstance(v, str) else repr(v))

    args = ", ".join(f"{qs(k)}, {lit(v)}" for k, v in pairs)
    fn = "OBJECT_CONSTRUCT_KEEP_NULL" if keep else "OBJECT_CONSTRUCT"
    out = core.run_stmt(cur, f"SELECT {fn}({args}) AS X")
    env.count("cmp_object_construct")
    env.cover("object_construct", f"{fn}/{'with-null' if any(v is None for _, v in pairs) else 'no-null'}")
    if not out["ok"]:
        env.witness(f"C11/rejected/{fn}/{out['exc']['cls']}", f"{out['sql']}: {out['exc']['msg'][:200]}")
        return
    want = {k: v for k, v in pairs if keep or v is not None}
    got = out["rows"][0][0]
    if not _json_eq(got, want):
        env.witness(f"C11/{fn.lower()}/{'null-pair' if any(v is None for _, v in pairs) else 'value'}", f"{out['sql']} -> {got!r} expected {want!r}")
    env.nontrivial(("oc", pairs, keep))


def _try_parse(case: dict, env: core.Env, cur: Any) -> None:
    r = random.Random(case["seed"])
    valid = r.random() < 0.5
    text = json.dumps(gen_doc(r)) if valid else r.choice(["{", "[1,", "{'a': 1}", "nope", "{\"a\":}", "", "1 2"])
    out = core.run_stmt(cur, f"SELECT TRY_PARSE_JSON({qs(text)}) AS X")
    env.count("cmp_extract")
    if not out["ok"]:
        env.witness(f"C11/rejected/try_parse_json/{'valid' if valid else 'invalid'}/{out['exc']['cls']}", f"{out['sql']}: {out['exc']['msg'][:200]}")
        return
    got = out["rows"][0][0]
    if valid:
        want = json.loads(text)
        if (want is None and got not in (None, "null")) or (want is not None and not _json_eq(got, want)):
            env.witness("C11/try_parse_json/valid-document", f"{out['sql']} -> {got!r}")
    elif got is not None:
        env.witness("C11/try_parse_json/invalid-document-not-null", f"{out['sql']} -> {got!r}")
    env.nontrivial(("tp", text))


def _array_literal(case: dict, env: core.Env, cur: Any) -> None:
    r = random.Random(case["seed"])
    homog = r.random() < 0.7
    vals = [r.randint(0, 9) for _ in range(r.randint(0, 4))] if homog else [r.choice([1, "a", 2.5, True]) for _ in range(r.randint(1, 4))]
    form = r.choice(["literal", "array_construct"])

    def lit(v: Any) -> str:
        return "TRUE" if v is True else "FALSE" if v is False else qs(v) if isinstance(v, str) else repr(v)

    body = ", ".join(lit(v) for v in vals)
    sql = f"SELECT [{body}] AS X" if form == "literal" else f"SELECT ARRAY_CONSTRUCT({body}) AS X"
    out = core.run_stmt(cur, sql)
    env.count("cmp_extract")
    tag = f"{form}/{'homogeneous' if homog else 'mixed'}"
    env.cover("array_literal", tag)
    if not out["ok"]:
        env.witness(f"C11/rejected/array/{tag}", f"{sql}: {out['exc']['cls']}: {out['exc']['msg'][:200]}")
        return
    got = out["rows"][0][0]
    if not isinstance(got, str):
        env.witness(f"C11/array/pytype-{type(got).__name__}-not-json-text/{tag}", f"{sql} -> {got!r}")
    elif json.loads(got) != vals:
        env.witness(f"C11/array/value/{tag}", f"{sql} -> {got!r} expected {vals!r}")
    env.nontrivial(("al", vals, form))
