"""C04 DML changes exactly the right rows and reports the true affected count.

Monitor: TableModel (multiset + 3VL predicates) run beside the real statements;
target / bystander contents read through the raw engine connection."""

from __future__ import annotations

import random
from typing import Any

from fsverif import core, models
from fsverif.models import COLS, COLTYPE, lit

ID = "C04"
LEVEL = "exploration"
BUDGET = {"quick": 60, "thorough": 480}
RULE = (
    "case = a sequence of 5-20 DML/DDL statements (INSERT VALUES 1-5 rows with/without permuted column lists, "
    "INSERT..SELECT with predicate, UPDATE/DELETE with 3VL predicates, UPDATE..FROM / DELETE..USING a source joined on a key (0, 1 or several partners per row), TRUNCATE, CREATE/DROP TABLE|VIEW|SCHEMA) over "
    "generated tables (0-12 rows, NULLs, duplicates); after every statement the status row, rowcount, target multiset and "
    "bystander tables are compared with the model. Non-trivial = at least one DML statement whose model-affected count was "
    "compared; distinct = distinct statement sequences."
)
REQUIRED = ["cmp_status", "cmp_rowcount", "cmp_target", "cmp_bystander", "cmp_ddl_status", "affected_zero", "affected_many", "cmp_execute_string", "joined_dml"]
ASSUMPTIONS = [
    "the reference model implements SQL three-valued logic for the generated predicate language only",
    "table contents are read through a raw DuckDB cursor of the same instance (committed view)",
]


def _cls(k: int, total: int | None = None) -> str:
    if k == 0:
        return "0"
    if k == 1:
        return "1"
    if total is not None and k == total:
        return "all"
    return "many"


def gen_cases(tier: str, seed: int):
    r = random.Random(f"{seed}:C04")
    ncases = 1500 if tier == "quick" else 12000
    for _ in range(ncases):
        t_rows = [models.gen_row(r) for _ in range(r.choice([0, 0, 1, 2, 3, 5, 8, 12]))]
        if t_rows and r.random() < 0.5:  # duplicates
            t_rows += [list(r.choice(t_rows)) for _ in range(r.randint(1, 3))]
        s_rows = [models.gen_row(r) for _ in range(r.choice([0, 1, 3, 6]))]
        stmts = []
        for _ in range(r.randint(5, 20)):
            x = r.random()
            if x < 0.18:
                cols = [c for c, _ in COLS]
                if r.random() < 0.5:
                    r.shuffle(cols)
                    cols = cols[: r.randint(1, len(cols))]
                    with_list = True
                else:
                    with_list = r.random() < 0.3
                rows = []
                for _ in range(r.randint(1, 5)):
                    full = models.row_dict(models.gen_row(r))
                    rows.append([full[c] for c in cols])
                stmts.append({"k": "insert_values", "cols": cols, "with_list": with_list, "rows": rows})
            elif x < 0.3:
                stmts.append({"k": "insert_select", "pred": models.gen_pred(r), "with_list": r.random() < 0.5})
            elif x < 0.55:
                c, t = r.choice(COLS)
                y = r.random()
                if y < 0.4:
                    pool = models.POOL[t]
                    setx = ["const", c, r.choice(pool)]
                elif t == "int":
                    setx = ["add", c, r.choice([1, -2, 10])]
                elif t == "str":
                    setx = ["concat", c, r.choice(["x", "", "'q"])]
                elif t == "bool":
                    setx = ["notb", c]
                else:
                    setx = ["const", c, r.choice(models.POOL[t])]
                stmts.append({"k": "update", "set": setx, "pred": models.gen_pred(r) if r.random() < 0.85 else None, "join": r.random() < 0.25})
            elif x < 0.8:
                stmts.append({"k": "delete", "pred": models.gen_pred(r) if r.random() < 0.9 else None, "join": r.random() < 0.2})
            elif x < 0.85:
                stmts.append({"k": "truncate", "kw": r.random() < 0.5})
            else:
                name = r.choice(["tmp1", "Tmp2", '"tmp3"', '"Mixed Case"', "tmp_4"])
                stmts.append({"k": "ddl", "kind": r.choice(["table", "view", "schema", "table_as"]), "name": name})
        # how the statements name their tables: plainly from the tables' own schema, or qualified (also through IDENTIFIER())
        # from a session whose current schema holds decoy tables of the same names
        via = r.choice(["plain", "plain", "S1.T", "DB1.S1.T", "IDENTIFIER('S1.T')", "IDENTIFIER('DB1.S1.T')", "IDENTIFIER('db1.s1.t')"])
        yield core.jsonable({"t_rows": t_rows, "s_rows": s_rows, "stmts": stmts, "via": via})


_state: dict[str, Any] = {}


def setup_worker(env: core.Env) -> None:
    # the instance also carries nop_regexes that no statement of this check starts with: data is never what they look at
    fs = core.new_fs(nop_regexes=["call", "grant", r"alter\s+session"])
    conn = fs.connect("db1", "s1")
    conn2 = fs.connect("db1", "s2")
    c2 = conn2.cursor()
    for name in ("T", "SRC", "BY"):
        c2.execute(f"CREATE TABLE {name} ({models.DDL_COLS})")
        c2.execute(f"INSERT INTO {name} (A) VALUES (424242)")
    _state.update(fs=fs, conn=conn, conn2=conn2, raw=core.raw_root(fs).cursor())


def _values_sql(rows: list, cols: list) -> str:
    return ", ".join("(" + ", ".join(lit(v, COLTYPE[c]) for v, c in zip(row, cols)) + ")" for row in rows)


def _read(raw: Any, table: str) -> list:
    return raw.execute(f"select A, B, C, D, E from DB1.S1.{table}").fetchall()


def _ident_reported(name: str) -> str:
    return name[1:-1] if name.startswith('"') else name.upper()


def run_case(case: dict, env: core.Env) -> None:
    case = core.unjson(case)
    conn, raw = _state["conn"], _state["raw"]
    cur = conn.cursor()
    allcols = [c for c, _ in COLS]
    for name, rows in (("T", case["t_rows"]), ("SRC", case["s_rows"]), ("BY", case["s_rows"])):
        cur.execute(f"CREATE OR REPLACE TABLE {name} ({models.DDL_COLS})")
        if rows:
            cur.execute(f"INSERT INTO {name} VALUES {_values_sql(rows, allcols)}")
    model = [list(r) for r in case["t_rows"]]
    src = [list(r) for r in case["s_rows"]]
    by_ms = models.multiset(case["s_rows"])
    compared = 0

    via = case.get("via", "plain")
    env.cover("target_spelling", via)
    if via != "plain":
        dml_cur = _state["conn2"].cursor()

    def spell(sql: str) -> str:
        """The statement as the session in schema S2 has to write it."""
        if via == "plain":
            return sql
        import re as _re
        return _re.sub(r"\bSRC\b", "DB1.S1.SRC", _re.sub(r"(?<![.'])\bT\b(?!')", via, sql))

    for si, st in enumerate(case["stmts"]):
        k = st["k"]
        expect_status = None
        if k == "insert_values":
            cols = st["cols"]
            collist = f" ({', '.join(cols)})" if st["with_list"] or len(cols) < len(allcols) or cols != allcols else ""
            sql = f"INSERT INTO T{collist} VALUES {_values_sql(st['rows'], cols)}"
            new = []
            for row in st["rows"]:
                d = dict(zip(cols, row))
                new.append([d.get(c) for c in allcols])
            model = model + new
            affected, cmd = len(new), "INSERT"
            expect_status = [(affected,)]
        elif k == "insert_select":
            sel = [r for r in src if models.pred_eval(st["pred"], models.row_dict(r)) is True]
            collist = f" ({', '.join(allcols)})" if st["with_list"] else ""
            sql = f"INSERT INTO T{collist} SELECT {', '.join(allcols)} FROM SRC WHERE {models.pred_sql(st['pred'])}"
            model = model + [list(r) for r in sel]
            affected, cmd = len(sel), "INSERT-SELECT"
            expect_status = [(affected,)]
        elif k == "update":
            sx = st["set"]
            c = sx[1]
            ci = allcols.index(c)
            if sx[0] == "const":
                rhs = lit(sx[2], COLTYPE[c])
                fn = lambda v, sx=sx: sx[2]  # noqa: E731
            elif sx[0] == "add":
                rhs = f"{c} + {sx[2]}" if sx[2] >= 0 else f"{c} - {-sx[2]}"
                fn = lambda v, sx=sx: None if v is None else v + sx[2]  # noqa: E731
            elif sx[0] == "concat":
                rhs = f"{c} || {lit(sx[2], 'str')}"
                fn = lambda v, sx=sx: None if v is None else v + sx[2]  # noqa: E731
            else:
                rhs = f"NOT {c}"
                fn = lambda v: None if v is None else (not v)  # noqa: E731
            where = f" WHERE {models.pred_sql(st['pred'])}" if st["pred"] else ""
            sql = f"UPDATE T SET {c} = {rhs}{where}"
            joined = st.get("join", False)
            if joined:
                # only the rows that have a partner in SRC (same A); a row with several partners is still one row
                sql = f"UPDATE T SET {c} = {rhs} FROM (SELECT A AS KA FROM SRC) S WHERE A = KA" + (f" AND ({models.pred_sql(st['pred'])})" if st["pred"] else "")
            affected = multi = pairs = 0
            nm = []
            for row in model:
                partners = sum(1 for sr in src if row[0] is not None and sr[0] == row[0]) if joined else 1
                if partners and (st["pred"] is None or models.pred_eval(st["pred"], models.row_dict(row)) is True):
                    row = list(row)
                    row[ci] = fn(row[ci])
                    affected += 1
                    multi += partners > 1
                    pairs += partners
                nm.append(row)
            model, cmd = nm, "UPDATE-FROM" if joined else "UPDATE"
            expect_status = [(affected, multi)]
            if multi:
                cmd = "UPDATE-FROM/multi-joined"
        elif k == "delete":
            where = f" WHERE {models.pred_sql(st['pred'])}" if st["pred"] else ""
            sql = f"DELETE FROM T{where}"
            joined = st.get("join", False)
            if joined:
                sql = "DELETE FROM T USING (SELECT A AS KA FROM SRC) S WHERE A = KA" + (f" AND ({models.pred_sql(st['pred'])})" if st["pred"] else "")
            keep = [
                row for row in model
                if not ((not joined or (row[0] is not None and any(sr[0] == row[0] for sr in src)))
                        and (st["pred"] is None or models.pred_eval(st["pred"], models.row_dict(row)) is True))
            ]
            affected, cmd = len(model) - len(keep), "DELETE-USING" if joined else "DELETE"
            model = keep
            expect_status = [(affected,)]
        elif k == "truncate":
            sql = "TRUNCATE TABLE T" if st["kw"] else "TRUNCATE T"
            affected, cmd = len(model), "TRUNCATE"
            model = []
        elif k == "ddl":
            _run_ddl(st, cur, env)
            continue
        else:
            raise ValueError(k)

        total_before = len(model) if k in ("update",) else None
        if k in ("update", "delete") and st.get("join"):
            env.count("joined_dml")
        acls = _cls(affected, total_before)
        env.cover("cmd_x_affected", f"{cmd}/{acls}")
        if not case["t_rows"] and si == 0:
            env.cover("empty_table", cmd)
        sql = spell(sql)
        out = core.run_stmt(cur if via == "plain" else dml_cur, sql)
        if not out["ok"]:
            env.witness(f"C04/{cmd}/rejected/{out['exc']['cls']}" + ("" if via == "plain" else "/qualified-target"), f"{sql} -> {out['exc']}")
            return
        if affected == 0:
            env.count("affected_zero")
        elif affected > 1:
            env.count("affected_many")
        if expect_status is not None:
            env.count("cmp_status")
            got = [tuple(r) for r in (out["rows"] or [])]
            if got != expect_status:
                if cmd == "UPDATE-FROM/multi-joined" and got == [(pairs, 0)]:
                    env.witness(f"C04/{cmd}/status-row/counts-joined-pairs-not-rows", f"{sql} -> status {got} expected {expect_status}")
                else:
                    env.witness(f"C04/{cmd}/status-row/affected={acls}", f"{sql} -> status {got} expected {expect_status}")
            env.count("cmp_rowcount")
            if out["rowcount"] != affected:
                if cmd == "UPDATE-FROM/multi-joined" and out["rowcount"] == pairs:
                    env.witness(f"C04/{cmd}/rowcount/counts-joined-pairs-not-rows", f"{sql} -> rowcount {out['rowcount']} expected {affected}")
                else:
                    env.witness(
                        f"C04/{cmd}/rowcount/affected={acls}/observed={_cls(out['rowcount'] or 0)}",
                        f"{sql} -> rowcount {out['rowcount']} expected {affected}",
                    )
            compared += 1
        else:
            env.count("cmp_truncate_status")
            if out.get("rows") is None:
                env.witness("C04/TRUNCATE/status-unreadable", f"{sql} -> {out.get('fetch_exc')}")
        env.count("cmp_target")
        got_ms = models.multiset(_read(raw, "T"))
        exp_ms = models.multiset(model)
        if got_ms != exp_ms:
            env.witness(
                f"C04/{cmd}/target-contents",
                f"{sql}: extra {dict(got_ms - exp_ms)} missing {dict(exp_ms - got_ms)}"[:1200],
            )
            return
        if via != "plain":
            decoys = raw.execute("select (select count(*) from DB1.S2.T), (select count(*) from DB1.S2.SRC), (select count(*) from DB1.S2.BY)").fetchall()
            if decoys != [(1, 1, 1)]:
                env.witness(f"C04/{cmd}/same-named-table-of-the-current-schema-changed", f"{sql}: row counts of DB1.S2.T/SRC/BY now {decoys}")
                for name in ("T", "SRC", "BY"):
                    raw.execute(f"delete from DB1.S2.{name}")
                    raw.execute(f"insert into DB1.S2.{name} (A) values (424242)")
                return
        env.count("cmp_bystander")
        if models.multiset(_read(raw, "BY")) != by_ms or models.multiset(_read(raw, "SRC")) != models.multiset(src):
            env.witness(f"C04/{cmd}/bystander-changed", sql)
            return
    # the same guarantees statement by statement when a script is run with execute_string: one cursor per statement,
    # each holding that statement's own status row and rowcount
    n = len(model)
    script = [("INSERT INTO T (A, B) VALUES (901, 'es1'), (902, 'es2'), (903, NULL)", [(3,)], 3),
              ("UPDATE T SET B = 'es' WHERE A >= 901", [(3, 0)], 3),
              ("DELETE FROM T WHERE A = 903", [(1,)], 1),
              ("UPDATE T SET B = 'none' WHERE A = 999", [(0, 0)], 0),
              ("DELETE FROM T WHERE A IN (901, 902)", [(2,)], 2)]
    for cls in (None, core.DictCursor):
        env.count("cmp_execute_string")
        try:
            curs = list(conn.execute_string(";\n".join(s for s, _, _ in script), **({"cursor_class": cls} if cls else {})))
        except Exception as e:  # noqa: BLE001
            env.witness(f"C04/execute_string/rejected/{type(e).__name__}", str(e)[:300])
            break
        if len(curs) != len(script):
            env.witness("C04/execute_string/cursor-count", f"{len(curs)} cursors for {len(script)} statements")
            break
        for c_, (sql, status, aff) in zip(curs, script):
            rows = c_.fetchall()
            got = [tuple(r.values()) if isinstance(r, dict) else tuple(r) for r in rows]
            cmd = sql.split()[0]
            if got != status:
                env.witness(f"C04/execute_string/{cmd}/status-row", f"{sql} -> status {got} expected {status}")
            if c_.rowcount != aff:
                env.witness(f"C04/execute_string/{cmd}/rowcount", f"{sql} -> rowcount {c_.rowcount} expected {aff}")
        if models.multiset(_read(raw, "T")) != models.multiset(model) or len(model) != n:
            env.witness("C04/execute_string/target-contents", "script left the table changed")
            break
    if compared:
        env.nontrivial([s for s in core.jsonable(case["stmts"])])


def _run_ddl(st: dict, cur: Any, env: core.Env) -> None:
    name, rep = st["name"], _ident_reported(st["name"])
    kind = st["kind"]
    if kind == "table":
        # IF NOT EXISTS creates the table when it is not there and says "already exists" when it is
        steps = [(f"CREATE TABLE {name} (x INT)", f"Table {rep} successfully created."),
                 (f"CREATE TABLE IF NOT EXISTS {name} (x INT, y INT)", f"{rep} already exists, statement succeeded."),
                 (f"DROP TABLE {name}", f"{rep} successfully dropped."),
                 (f"CREATE TABLE IF NOT EXISTS {name} (x INT)", f"Table {rep} successfully created."),
                 (f"DROP TABLE {name}", f"{rep} successfully dropped."),
                 (f"CREATE TABLE DB1.S1.{name} (x INT)", f"Table {rep} successfully created."),
                 (f"DROP TABLE IF EXISTS db1.s1.{name}", f"{rep} successfully dropped."),
                 (f"CREATE OR REPLACE TABLE S1.{name} (x INT)", f"Table {rep} successfully created."),
                 (f"DROP TABLE IF EXISTS S1.{name}", f"{rep} successfully dropped.")]
    elif kind == "table_as":
        steps = [(f"CREATE OR REPLACE TABLE {name} AS SELECT A, B FROM SRC", f"Table {rep} successfully created."),
                 (f"DROP TABLE IF EXISTS {name}", f"{rep} successfully dropped.")]
    elif kind == "view":
        steps = [(f"CREATE VIEW {name} AS SELECT A FROM SRC", f"View {rep} successfully created."),
                 (f"DROP VIEW {name}", f"{rep} successfully dropped.")]
    else:
        # the same schema under its bare and its database-qualified name, with and without IF [NOT] EXISTS: the message names the schema
        steps = [(f"CREATE SCHEMA {name}", f"Schema {rep} successfully created."),
                 (f"DROP SCHEMA {name}", f"{rep} successfully dropped."),
                 (f"CREATE SCHEMA DB1.{name}", f"Schema {rep} successfully created."),
                 (f"DROP SCHEMA IF EXISTS DB1.{name}", f"{rep} successfully dropped."),
                 (f"CREATE SCHEMA IF NOT EXISTS db1.{name}", f"Schema {rep} successfully created."),
                 (f"DROP SCHEMA db1.{name}", f"{rep} successfully dropped.")]
    for sql, status in steps:
        out = core.run_stmt(cur, sql)
        cmd = " ".join(sql.split()[:2]) + ("/" + kind)
        env.cover("ddl", cmd)
        if not out["ok"]:
            env.witness(f"C04/DDL/rejected/{cmd}/{out['exc']['cls']}", f"{sql} -> {out['exc']}")
            return
        env.count("cmp_ddl_status")
        got = [tuple(r) for r in (out["rows"] or [])]
        if got != [(status,)]:
            q = "quoted" if name.startswith('"') else "unquoted"
            env.witness(f"C04/DDL/status-text/{cmd}/{q}", f"{sql} -> {got} expected {status!r}")
