"""C12 MERGE leaves the target as Snowflake's MERGE would, with true counts.

Monitor: MergeModel (first applicable clause per joined pair / unmatched source row) run
beside real MERGE statements over generated target/source tables."""

from __future__ import annotations

import random
from collections import Counter
from typing import Any

from fsverif import core

ID = "C12"
LEVEL = "exploration"
BUDGET = {"quick": 70, "thorough": 600}
RULE = (
    "case = (target rows 0-8 with several rows per key and NULL keys, source rows 0-8 with unique non-NULL keys, 1-4 WHEN "
    "clauses from {MATCHED [AND c] UPDATE|DELETE, NOT MATCHED [AND c] INSERT [(cols)]} with conditions on target and/or source "
    "columns, spelling variant: alias / no alias / subquery source / qualified names / lower-case keywords, optional enclosing "
    "BEGIN..ROLLBACK). Non-trivial = the model says at least one row is inserted, updated or deleted; distinct = distinct cases."
)
REQUIRED = ["after_failed_merge", "cmp_committed", "cmp_target_only_columns", "cmp_target", "cmp_counts", "cmp_source_unchanged", "cmp_helper_invisible", "merges_with_effect", "merges_without_effect",
            "cmp_rollback"]
ASSUMPTIONS = [
    "only deterministic merges are generated (no target row joins more than one source row)",
    "an unconditional WHEN clause is only generated as the last of its kind, as Snowflake requires",
]

KEYS = [1, 2, 3, 4, 5, None]


def _rows_t(r: random.Random) -> list:
    n = r.choice([0, 1, 2, 3, 5, 8])
    return [[r.choice(KEYS), r.randint(0, 9), r.choice(["a", "b", "c"])] for _ in range(n)]


def _rows_s(r: random.Random) -> list:
    n = r.choice([0, 1, 2, 3, 5, 8])
    ks = r.sample([1, 2, 3, 4, 5, 6, 7, 8], min(n, 8))
    rows = [[k, r.randint(0, 9), r.choice(["x", "y", "z"]), r.randint(0, 1)] for k in ks]
    if r.random() < 0.3:
        rows.append([None, r.randint(0, 9), "n", r.randint(0, 1)])
    return rows


COND_M = [None, ["s", "FLAG", "=", 1], ["s", "V", ">", 4], ["t", "V", ">", 4], ["t", "V", "<=", 4], ["ts", "V", "<", "V"], ["t", "W", "=", "a"]]
COND_N = [None, ["s", "FLAG", "=", 1], ["s", "V", ">", 4], ["s", "FLAG", "=", 0], ["or", ["s", "FLAG", "=", 1], ["s", "V", ">", 6]]]
# a condition with OR in it (the clause reads WHEN MATCHED AND a OR b: Snowflake takes it as AND (a OR b))
COND_M += [["or", ["s", "FLAG", "=", 1], ["s", "V", ">", 6]], ["or", ["t", "V", "<=", 2], ["s", "V", ">", 6]], ["or", ["t", "W", "=", "a"], ["t", "V", ">", 7]]]
SETS = [[["V", "s", "V"]], [["V", "c", 77]], [["W", "s", "W"]], [["V", "s", "V"], ["W", "s", "W"]], [["V", "c", 0], ["W", "c", "upd"]],
        [["V", "t+", 1]], [["W", "rr", None]], [["V", "s", "V"], ["W", "rr", None]]]
# an extra predicate on the target inside ON (history-table style): only the target rows that satisfy it are joined
ON_EXTRA = [None, None, None, ["t", "V", ">", 4], ["t", "W", "=", "a"], ["t", "V", "<=", 4]]
INSERTS = [["cols", ["K", "V", "W"], [["s", "K"], ["s", "V"], ["s", "W"]]],
           ["nocols", None, [["s", "K"], ["s", "V"], ["s", "W"]]],
           ["cols", ["K", "W"], [["s", "K"], ["c", "ins"]]],
           ["cols", ["W", "K", "V"], [["s", "W"], ["s", "K"], ["c", 5]]]]
VARIANTS = ["alias", "noalias", "subquery", "qualified", "lower", "alias_as", "other_schema", "other_schema_noalias"]


TARGET_ONLY = [
    # (name, statement over PATHS(ID, PATH, SEEN) = [(1,'a',0),(2,'b',5)], expected rows, expected status)
    ("set-unqualified-target-column-in-expression",
     "MERGE INTO PATHS t USING (SELECT 1 AS ID, 'z' AS NEWPATH UNION ALL SELECT 3, 'c') s ON t.ID = s.ID "
     "WHEN MATCHED THEN UPDATE SET SEEN = SEEN + 1, PATH = s.NEWPATH WHEN NOT MATCHED THEN INSERT (ID, PATH, SEEN) VALUES (s.ID, s.NEWPATH, 0)",
     [(1, "z", 1), (2, "b", 5), (3, "c", 0)], [(1, 1)]),
    ("set-unqualified-target-column-no-alias",
     "MERGE INTO PATHS USING (SELECT 2 AS ID, 'y' AS NEWPATH) s ON PATHS.ID = s.ID WHEN MATCHED THEN UPDATE SET SEEN = SEEN * 2 + 1",
     [(1, "a", 0), (2, "b", 11)], [(1,)]),
    ("condition-on-unqualified-target-column",
     "MERGE INTO PATHS t USING (SELECT 1 AS ID, 'p' AS NEWPATH UNION ALL SELECT 2, 'q') s ON t.ID = s.ID "
     "WHEN MATCHED AND SEEN > 3 THEN UPDATE SET PATH = s.NEWPATH || PATH, SEEN = 0",
     [(1, "a", 0), (2, "qb", 0)], [(1,)]),
    ("set-target-qualified-column-in-expression",
     "MERGE INTO PATHS t USING (SELECT 1 AS ID, 4 AS N) s ON t.ID = s.ID WHEN MATCHED THEN UPDATE SET SEEN = t.SEEN + s.N * 2 + SEEN",
     [(1, "a", 8), (2, "b", 5)], [(1,)]),
]


def gen_cases(tier: str, seed: int):
    r = random.Random(f"{seed}:C12")
    for i in range(len(TARGET_ONLY)):
        yield {"kind": "target_only", "which": i}
    # a MERGE that fails to compile inside the session's open transaction: the transaction and what it holds stay
    for bad in range(len(BAD_MERGES)):
        for end in ("commit", "rollback"):
            for pending in ("insert", "update", "merge"):
                yield {"kind": "failed_merge_in_txn", "bad": bad, "end": end, "pending": pending}
    n = 2500 if tier == "quick" else 30000
    for _ in range(n):
        clauses = []
        nm = r.choice([0, 1, 1, 2, 3])
        for j in range(nm):
            last = j == nm - 1
            cond = r.choice(COND_M[1:]) if not last else r.choice(COND_M + [None, None])
            if r.random() < 0.6:
                clauses.append(["M", cond, "update", r.choice(SETS)])
            else:
                clauses.append(["M", cond, "delete"])
        nn = r.choice([0, 1, 1, 2]) if nm else r.choice([1, 1, 2])
        for j in range(nn):
            last = j == nn - 1
            cond = r.choice(COND_N[1:]) if not last else r.choice(COND_N + [None, None])
            clauses.append(["N", cond, "insert", r.choice(INSERTS)])
        if r.random() < 0.3:
            r.shuffle(clauses)  # order between kinds is free; keep unconditional-last within a kind
            ms = [c for c in clauses if c[0] == "M"]
            ns = [c for c in clauses if c[0] == "N"]
            ms.sort(key=lambda c: c[1] is None)
            ns.sort(key=lambda c: c[1] is None)
            it_m, it_n = iter(ms), iter(ns)
            clauses = [next(it_m) if c[0] == "M" else next(it_n) for c in clauses]
        fail = r.random() < 0.06
        if fail:  # a MERGE whose INSERT sub-step violates NOT NULL after its UPDATE/DELETE sub-step ran
            clauses = [["M", None, r.choice(["update", "delete"]), [["V", "c", 77]]][: 4],
                       ["N", None, "insert", ["cols", ["K", "V"], [["s", "K"], ["s", "V"]]]]]
            if clauses[0][2] == "delete":
                clauses[0] = ["M", None, "delete"]
        case = {
            "on_extra": None if fail else r.choice(ON_EXTRA),
            "t": _rows_t(r), "s": _rows_s(r), "clauses": clauses, "variant": r.choice(VARIANTS),
            "two_keys": False, "txn": r.random() < 0.15 and not fail, "notnull": fail,
        }
        if r.random() < 0.2:
            # the same merge over strings with backslashes in them (in rows, SET / VALUES constants and conditions)
            case = _with_backslashes(case)
            case["backslashes"] = True
        case["after_failed_merge"] = r.random() < 0.2
        yield case


# ---------------------------------------------------------------------------
def _cond_sql(c: list | None, ta: str, sa: str) -> str:
    if c is None:
        return ""
    if c[0] == "or":
        return " AND " + " OR ".join(_cond_sql(x, ta, sa)[5:] for x in c[1:])
    side, col, op, val = c
    if side == "s":
        return f" AND {sa}.{col} {op} {_lit(val)}"
    if side == "t":
        return f" AND {ta}.{col} {op} {_lit(val)}"
    return f" AND {ta}.{col} {op} {sa}.{val}"


def _lit(v: Any) -> str:
    return "'" + v.replace("\\", "\\\\").replace("'", "''") + "'" if isinstance(v, str) else str(v)


def _esc_word(s: str) -> str:
    # a -> a\n , upd -> u\pd , ins -> i\ns , x -> x\n : backslash followed by something Snowflake reads as an escape
    return s + "\\n" if len(s) == 1 else s[0] + "\\" + s[1:]


def _with_backslashes(case: dict) -> dict:
    """Every string value (W column of both tables, string constants of SET / VALUES, the W condition) gets a backslash."""
    e = _esc_word
    out = dict(case)
    out["t"] = [[k, v, e(w)] for k, v, w in case["t"]]
    out["s"] = [[k, v, e(w), f] for k, v, w, f in case["s"]]
    cl = []
    for c in case["clauses"]:
        c = [x for x in c]
        def esc_cond(cc: Any) -> Any:
            if cc is None:
                return None
            if cc[0] == "or":
                return ["or"] + [esc_cond(x) for x in cc[1:]]
            return [cc[0], cc[1], cc[2], e(cc[3])] if isinstance(cc[3], str) and cc[0] != "ts" else cc
        c[1] = esc_cond(c[1])
        if c[2] == "update":
            c[3] = [[col, how, (e(val) if how == "c" and isinstance(val, str) else val)] for col, how, val in c[3]]
        if c[2] == "insert":
            c[3] = [c[3][0], c[3][1], [[how, (e(val) if how == "c" and isinstance(val, str) else val)] for how, val in c[3][2]]]
        cl.append(c)
    out["clauses"] = cl
    return out


def _on_target(c: list) -> bool:
    return any(_on_target(x) for x in c[1:]) if c[0] == "or" else c[0] in ("t", "ts")


TCOL = {"K": 0, "V": 1, "W": 2}
SCOL = {"K": 0, "V": 1, "W": 2, "FLAG": 3}


def _cmp(a: Any, op: str, b: Any) -> bool:
    if a is None or b is None:
        return False
    return {"=": a == b, ">": a > b, "<": a < b, "<=": a <= b}[op]


def _cond_eval(c: list | None, t: list | None, s: list) -> bool:
    if c is None:
        return True
    if c[0] == "or":
        return any(_cond_eval(x, t, s) for x in c[1:])
    side, col, op, val = c
    if side == "s":
        return _cmp(s[SCOL[col]], op, val)
    if side == "t":
        return _cmp(t[TCOL[col]], op, val)
    return _cmp(t[TCOL[col]], op, s[SCOL[val]])


def model_merge(t_rows: list, s_rows: list, clauses: list, on_extra: list | None = None) -> tuple[list, dict]:
    counts = {"inserted": 0, "updated": 0, "deleted": 0}
    by_key = {s[0]: s for s in s_rows if s[0] is not None}
    out = []
    matched_keys = set()
    for t in t_rows:
        s = by_key.get(t[0]) if t[0] is not None else None
        if s is None or not _cond_eval(on_extra, t, s):
            out.append(list(t))
            continue
        matched_keys.add(t[0])
        new = list(t)
        for cl in clauses:
            if cl[0] != "M" or not _cond_eval(cl[1], t, s):
                continue
            if cl[2] == "delete":
                new = None
                counts["deleted"] += 1
            else:
                for col, kind, val in cl[3]:
                    if kind == "s":
                        new[TCOL[col]] = s[SCOL[val]]
                    elif kind == "c":
                        new[TCOL[col]] = val
                    elif kind == "rr":
                        new[TCOL[col]] = None if s[SCOL["W"]] is None else (s[SCOL["W"]] * 2).replace("x", "q")
                    else:
                        new[TCOL[col]] = None if t[TCOL[col]] is None else t[TCOL[col]] + val
                counts["updated"] += 1
            break
        if new is not None:
            out.append(new)
    for s in s_rows:
        if s[0] is not None and s[0] in matched_keys:
            continue
        for cl in clauses:
            if cl[0] != "N" or not _cond_eval(cl[1], None, s):
                continue
            _, cols, vals = cl[3]
            cols = cols or ["K", "V", "W"]
            row = [None, None, None]
            for col, (kind, val) in zip(cols, vals):
                row[TCOL[col]] = s[SCOL[val]] if kind == "s" else val
            out.append(row)
            counts["inserted"] += 1
            break
    return out, counts


def merge_sql(case: dict) -> str:
    v = case["variant"]
    tname, sname = ("DB1.S1.TGT", "DB1.S1.SRC") if v == "qualified" else ("TGT", "SRC")
    if v.startswith("other_schema"):
        tname, sname = "DB1.OTHER.TGT", "SRC"
    if v == "other_schema_noalias":
        ta, sa = "DB1.OTHER.TGT", "SRC"
        into, using = tname, sname
        v = "noalias-qualified"
    elif v in ("alias", "lower", "subquery", "qualified", "other_schema"):
        ta, sa = "t", "s"
        into = f"{tname} t"
        using = f"(SELECT * FROM {sname}) s" if v == "subquery" else f"{sname} s"
    elif v == "alias_as":
        ta, sa = "t", "s"
        into, using = f"{tname} AS t", f"{sname} AS s"
    else:
        ta, sa = "TGT", "SRC"
        into, using = tname, sname
    parts = [f"MERGE INTO {into} USING {using} ON {ta}.K = {sa}.K" + _cond_sql(case.get("on_extra"), ta, sa)]
    for cl in case["clauses"]:
        if cl[0] == "M":
            head = f"WHEN MATCHED{_cond_sql(cl[1], ta, sa)} THEN "
            if cl[2] == "delete":
                parts.append(head + "DELETE")
            else:
                sets = []
                for col, kind, val in cl[3]:
                    rhs = (f"{sa}.{val}" if kind == "s" else _lit(val) if kind == "c" else
                           f"REGEXP_REPLACE({sa}.W || {sa}.W, 'x', 'q')" if kind == "rr" else f"{ta}.{col} + {val}")
                    sets.append(f"{ta}.{col} = {rhs}" if v not in ("noalias", "noalias-qualified") else f"{col} = {rhs}")
                parts.append(head + "UPDATE SET " + ", ".join(sets))
        else:
            _, cols, vals = cl[3]
            vs = ", ".join(f"{sa}.{val}" if kind == "s" else _lit(val) for kind, val in vals)
            cl_sql = f" ({', '.join(cols)})" if cols else ""
            parts.append(f"WHEN NOT MATCHED{_cond_sql(cl[1], ta, sa)} THEN INSERT{cl_sql} VALUES ({vs})")
    sql = " ".join(parts)
    if v == "lower":
        sql = sql.lower().replace("'upd'", "'upd'")
    return sql


def features(case: dict) -> dict:
    keys = [t[0] for t in case["t"] if t[0] is not None]
    skeys = {s[0] for s in case["s"] if s[0] is not None}
    dup_matched = any(c > 1 and k in skeys for k, c in Counter(keys).items())
    return {
        "several-target-rows-per-matched-key": dup_matched,
        "target-condition": any(cl[0] == "M" and cl[1] and _on_target(cl[1]) for cl in case["clauses"]),
        "on-extra": case.get("on_extra") is not None,
        "n_matched_clauses": sum(1 for cl in case["clauses"] if cl[0] == "M"),
        "n_insert_clauses": sum(1 for cl in case["clauses"] if cl[0] == "N"),
    }


_state: dict[str, Any] = {}


def setup_worker(env: core.Env) -> None:
    fs = core.new_fs()
    conn = fs.connect("db1", "s1")
    conn.cursor().execute("CREATE SCHEMA OTHER")
    _state.update(fs=fs, conn=conn, raw=core.raw_root(fs).cursor())


def _vals(rows: list) -> str:
    return ", ".join("(" + ", ".join("NULL" if v is None else _lit(v) for v in row) + ")" for row in rows)


def _target_only(case: dict, env: core.Env) -> None:
    """Columns that only the target has, named without their table in SET expressions and WHEN conditions."""
    name, sql, want_rows, want_status = TARGET_ONLY[case["which"]]
    conn, raw = _state["conn"], _state["raw"]
    cur = conn.cursor()
    cur.execute("CREATE OR REPLACE TABLE PATHS (ID INT, PATH VARCHAR, SEEN INT)")
    cur.execute("INSERT INTO PATHS VALUES (1, 'a', 0), (2, 'b', 5)")
    env.count("cmp_target_only_columns")
    out = core.run_stmt(cur, sql)
    got = sorted(raw.execute("select ID, PATH, SEEN from DB1.S1.PATHS").fetchall())
    if not out["ok"]:
        env.witness(f"C12/rejected/target-only-column/{name}/{out['exc']['cls']}", f"{sql}: {out['exc']}; table now {got}"[:900])
    elif got != want_rows:
        env.witness(f"C12/target-contents/target-only-column/{name}", f"{sql}: {got} expected {want_rows}")
    elif [tuple(int(x) for x in row) for row in out["rows"]] != want_status:
        env.witness(f"C12/counts/target-only-column/{name}", f"{sql}: status {out['rows']} expected {want_status}")
    cur.execute("DROP TABLE PATHS")
    env.nontrivial(("target_only", name))


BAD_MERGES = [
    ("unknown-column-in-when-condition", "MERGE INTO ACC t USING DELTA s ON t.ID = s.ID WHEN MATCHED AND s.NO_SUCH_COLUMN > 0 THEN UPDATE SET AMT = s.AMT WHEN NOT MATCHED THEN INSERT (ID, AMT) VALUES (s.ID, s.AMT)"),
    ("unknown-column-in-on", "MERGE INTO ACC t USING DELTA s ON t.ID = s.NO_SUCH_COLUMN WHEN MATCHED THEN UPDATE SET AMT = s.AMT"),
    ("unknown-source-table", "MERGE INTO ACC t USING NO_SUCH_DELTA s ON t.ID = s.ID WHEN MATCHED THEN DELETE"),
    ("unknown-target-table", "MERGE INTO NO_SUCH_ACC t USING DELTA s ON t.ID = s.ID WHEN NOT MATCHED THEN INSERT (ID, AMT) VALUES (s.ID, s.AMT)"),
]
GOOD_MERGE = "MERGE INTO ACC t USING DELTA s ON t.ID = s.ID WHEN MATCHED THEN UPDATE SET AMT = t.AMT + s.AMT WHEN NOT MATCHED THEN INSERT (ID, AMT) VALUES (s.ID, s.AMT)"


def _failed_merge_in_txn(case: dict, env: core.Env) -> None:
    """BEGIN, a pending change, a MERGE that does not compile, a MERGE that does, COMMIT / ROLLBACK: the failed statement neither
    ends the transaction nor takes the pending change with it; the later MERGE works on what the session sees, with true counts."""
    name, bad_sql = BAD_MERGES[case["bad"]]
    conn, raw = _state["conn"], _state["raw"]
    try:
        conn.rollback()
    except Exception:  # noqa: BLE001
        pass
    cur = conn.cursor()
    own = core.raw_of(conn)
    cur.execute("CREATE OR REPLACE TABLE ACC (ID INT, AMT INT)")
    cur.execute("CREATE OR REPLACE TABLE DELTA (ID INT, AMT INT)")
    cur.execute("INSERT INTO ACC VALUES (1, 10), (2, 20), (3, 30)")
    cur.execute("INSERT INTO DELTA VALUES (2, 5), (9, 90), (4, 40)")
    before = [(1, 10), (2, 20), (3, 30)]

    def rd(c: Any) -> list:
        return sorted(c.execute("select ID, AMT from DB1.S1.ACC").fetchall())

    tag = f"{name}/pending-{case['pending']}"
    try:
        cur.execute("BEGIN")
        if case["pending"] == "insert":
            cur.execute("INSERT INTO ACC VALUES (9, 1)")
            pend = sorted(before + [(9, 1)])
            final, counts = sorted([(1, 10), (2, 25), (3, 30), (9, 91), (4, 40)]), (1, 2)
        elif case["pending"] == "update":
            cur.execute("UPDATE ACC SET AMT = AMT + 100 WHERE ID = 2")
            pend = [(1, 10), (2, 120), (3, 30)]
            final, counts = sorted([(1, 10), (2, 125), (3, 30), (9, 90), (4, 40)]), (2, 1)
        else:
            o0 = core.run_stmt(cur, "MERGE INTO ACC t USING (SELECT 3 AS ID, 7 AS AMT UNION ALL SELECT 4, 1) s ON t.ID = s.ID WHEN MATCHED THEN DELETE WHEN NOT MATCHED THEN INSERT (ID, AMT) VALUES (s.ID, s.AMT)")
            if not o0["ok"]:
                env.witness(f"C12/rejected/{o0['exc']['kind']}-{o0['exc']['cls']}/merge-in-transaction", str(o0["exc"])[:600])
                return
            pend = [(1, 10), (2, 20), (4, 1)]
            final, counts = sorted([(1, 10), (2, 25), (4, 41), (9, 90)]), (1, 2)
        env.count("cmp_failed_merge_in_txn")
        bad = core.run_stmt(cur, bad_sql)
        if bad["ok"]:
            env.witness(f"C12/failed-merge-in-transaction/accepted/{name}", bad_sql)
            return
        if rd(own) != pend:
            env.witness(f"C12/failed-merge-in-transaction/pending-changes-of-the-transaction-lost/{tag}", f"{bad_sql} failed ({bad['exc']['cls']}); the session now sees {rd(own)}, before the MERGE it saw {pend}")
            return
        if rd(raw) != before:
            env.witness(f"C12/failed-merge-in-transaction/transaction-ended/{tag}", f"{bad_sql} failed; other sessions now see {rd(raw)} (committed before: {before})")
            return
        good = core.run_stmt(cur, GOOD_MERGE)
        if not good["ok"]:
            env.witness(f"C12/failed-merge-in-transaction/next-merge-rejected/{tag}", f"{good['exc']}"[:600])
            return
        got_counts = tuple(int(x) for x in good["rows"][0]) if good["rows"] else None
        if rd(own) != final or got_counts != counts:
            env.witness(f"C12/failed-merge-in-transaction/next-merge-wrong/{tag}", f"after the failed {name}: {GOOD_MERGE} -> {good['rows']} (expected {counts}), target {rd(own)} expected {final}")
            return
        if rd(raw) != before:
            env.witness(f"C12/failed-merge-in-transaction/visible-before-commit/{tag}", f"other sessions see {rd(raw)} before COMMIT")
            return
        cur.execute(case["end"].upper())
        want = final if case["end"] == "commit" else before
        if rd(raw) != want or rd(own) != want:
            env.witness(f"C12/failed-merge-in-transaction/after-{case['end']}/{tag}", f"committed {rd(raw)} session {rd(own)} expected {want}")
            return
        env.nontrivial(("failed_merge_in_txn", name, case["end"], case["pending"]))
    finally:
        try:
            conn.rollback()
        except Exception:  # noqa: BLE001
            pass
        for t in ("ACC", "DELTA"):
            try:
                cur.execute(f"DROP TABLE IF EXISTS {t}")
            except Exception:  # noqa: BLE001
                pass


def run_case(case: dict, env: core.Env) -> None:
    if case.get("kind") == "target_only":
        return _target_only(case, env)
    if case.get("kind") == "failed_merge_in_txn":
        return _failed_merge_in_txn(case, env)
    conn, raw = _state["conn"], _state["raw"]
    try:
        conn.rollback()
    except Exception:  # noqa: BLE001
        pass
    cur = conn.cursor()
    cur.execute(f"CREATE OR REPLACE TABLE TGT (K INT, V INT, W VARCHAR{' NOT NULL' if case.get('notnull') else ''})")
    cur.execute("CREATE OR REPLACE TABLE SRC (K INT, V INT, W VARCHAR, FLAG INT)")
    cur.execute("CREATE OR REPLACE TABLE BYST (K INT, V INT, W VARCHAR)")
    other_schema = case["variant"].startswith("other_schema")
    tgt_fq = "DB1.OTHER.TGT" if other_schema else "DB1.S1.TGT"
    if other_schema:
        # the real target lives in another schema; the current schema holds a decoy of the same name
        cur.execute(f"CREATE OR REPLACE TABLE DB1.OTHER.TGT (K INT, V INT, W VARCHAR{' NOT NULL' if case.get('notnull') else ''})")
        cur.execute("INSERT INTO TGT VALUES (777, 7, 'decoy')")
    if case["t"]:
        cur.execute(f"INSERT INTO {tgt_fq} VALUES {_vals(case['t'])}")
        cur.execute(f"INSERT INTO BYST VALUES {_vals(case['t'])}")
    if case["s"]:
        cur.execute(f"INSERT INTO SRC VALUES {_vals(case['s'])}")
    exp_rows, exp_counts = model_merge(case["t"], case["s"], case["clauses"], case.get("on_extra"))
    f = features(case)
    ftag = (
        f"{'several' if f['several-target-rows-per-matched-key'] else 'single'}-target-rows-per-key/"
        f"{'target-condition' if f['target-condition'] else 'no-target-condition'}/"
        f"matched-clauses={min(f['n_matched_clauses'], 2)}{'+' if f['n_matched_clauses'] > 2 else ''}"
    )
    variant = case["variant"]
    env.cover("variant", variant)
    env.cover("clause_shape", "+".join(sorted(f"{cl[0]}:{cl[2]}{'?' if cl[1] else ''}" for cl in case["clauses"])))
    sql = merge_sql(case)
    if case.get("after_failed_merge"):
        # the session has a failed MERGE behind it (a mistyped column): it changed nothing and leaves nothing open
        env.count("after_failed_merge")
        bad = core.run_stmt(cur, f"MERGE INTO {tgt_fq if other_schema else 'TGT'} t USING SRC s ON t.K = s.K WHEN MATCHED THEN UPDATE SET NO_SUCH_COLUMN = s.V "
                                 "WHEN NOT MATCHED THEN INSERT (K, V, W) VALUES (s.K, s.NO_SUCH_COLUMN, s.W)")
        if bad["ok"]:
            env.witness("C12/merge-naming-an-unknown-column-accepted", str(bad.get("rows")))
            return
    if case["txn"]:
        cur.execute("BEGIN")
    out = core.run_stmt(cur, sql)
    has_effect = any(exp_counts.values())
    before_ms = Counter(map(tuple, case["t"]))

    def read(tbl: str, via: Any = None) -> Counter:
        c = via or raw
        fq = tgt_fq if tbl == "TGT" else f"DB1.S1.{tbl}"
        return Counter(tuple(x) for x in c.execute(f"select K, V, W from {fq}").fetchall())

    own = core.raw_of(conn)
    must_fail = bool(case.get("notnull")) and exp_counts["inserted"] > 0
    if must_fail and out["ok"]:
        env.witness("C12/not-null-violation-accepted", sql)
        return
    if not out["ok"]:
        e = out["exc"]
        # all-or-none: a failed MERGE leaves the target as it was
        env.count("cmp_all_or_none")
        if read("TGT", own) != before_ms:
            earlier = "earlier-substep-had-effect" if (exp_counts["updated"] or exp_counts["deleted"]) else "no-earlier-effect"
            env.witness(f"C12/failed-merge-changed-target/{'not-null-in-insert' if must_fail else variant}/{earlier}", f"{sql}: {e}; target now {dict(read('TGT', own))}"[:900])
        if not must_fail:
            env.witness(f"C12/rejected/{e['kind']}-{e['cls']}/{variant}", f"{sql}: {e}"[:900])
        else:
            env.cover("expected_failure", e["cls"])
            env.nontrivial(case)
        if case["txn"]:
            try:
                conn.rollback()
            except Exception:  # noqa: BLE001
                pass
        return
    env.count("merges_with_effect" if has_effect else "merges_without_effect")
    # ---- target contents (own view: may be inside a transaction)
    env.count("cmp_target")
    got = read("TGT", own)
    exp = Counter(map(tuple, exp_rows))
    if case.get("on_extra") is not None:
        # target rows that do not satisfy the ON clause are no part of the merge at all: whatever else happens, they stay
        outside = Counter(tuple(t) for t in case["t"] if not _cond_eval(case["on_extra"], t, [None, None, None, None]))
        env.count("cmp_rows_outside_on")
        if outside - got:
            env.witness("C12/target-contents/rows-that-do-not-satisfy-ON-were-changed", f"{sql}: missing untouched rows {dict(outside - got)}; t={case['t']} s={case['s']}"[:1500])
            return
    if not case["txn"]:
        # autocommit: what the session sees is what every other session sees
        env.count("cmp_committed")
        if read("TGT") != got:
            env.witness("C12/merge-not-committed-in-autocommit" + ("/after-failed-merge" if case.get("after_failed_merge") else ""),
                        f"{sql}: the session sees {dict(got)} but another session {dict(read('TGT'))}"[:900])
            try:
                conn.rollback()
            except Exception:  # noqa: BLE001
                pass
            return
    if got != exp:
        env.witness(f"C12/target-contents/{ftag}", f"{sql}: extra {dict(got - exp)} missing {dict(exp - got)}; t={case['t']} s={case['s']}"[:1500])
    # ---- counts
    env.count("cmp_counts")
    names = [n for n, kind in (("inserted", "N"), ("updated", "update"), ("deleted", "delete"))
             if any((cl[0] == "N") if kind == "N" else (cl[0] == "M" and cl[2] == kind) for cl in case["clauses"])]
    exp_status = [tuple(exp_counts[n] for n in names)]
    got_status = [tuple(x) for x in (out["rows"] or [])]
    if got_status != exp_status:
        zero = "all-counts-zero" if not any(exp_status[0]) else "some-count-zero" if 0 in exp_status[0] else "all-counts-nonzero"
        nullish = "null-reported" if got_status and any(v is None for v in got_status[0]) else "wrong-number"
        if got == exp:
            env.witness(f"C12/counts/{nullish}/{zero}", f"{sql}: status {got_status} expected {exp_status} ({names})")
        # (when the target itself is wrong the counts are not judged separately: one mechanism, one witness)
    d = core.read_description(cur)
    if d["ok"]:
        want_names = [f"number of rows {n}" for n in names]
        if d["names"] != want_names:
            env.witness("C12/status-columns", f"{d['names']} expected {want_names}")
    if other_schema:
        decoy = Counter(tuple(x) for x in own.execute("select K, V, W from DB1.S1.TGT").fetchall())
        if decoy != Counter([(777, 7, "decoy")]):
            env.witness("C12/same-named-table-in-current-schema-changed", f"{sql}: decoy DB1.S1.TGT now {dict(decoy)}")
    # ---- source and bystander untouched
    env.count("cmp_source_unchanged")
    gs = Counter(tuple(x) for x in own.execute("select K, V, W, FLAG from DB1.S1.SRC").fetchall())
    if gs != Counter(map(tuple, case["s"])) or read("BYST", own) != before_ms:
        env.witness("C12/source-or-bystander-changed", sql)
    # ---- no helper object visible in the session
    env.count("cmp_helper_invisible")
    o2 = core.run_stmt(cur, "SELECT COUNT(*) FROM merge_candidates")
    if o2["ok"]:
        env.witness("C12/helper-visible/selectable", f"SELECT FROM merge_candidates after MERGE -> {o2['rows']}")
    o3 = core.run_stmt(cur, "SHOW TABLES")
    if o3["ok"] and any("MERGE_CANDIDATES" in str(row).upper() for row in o3["rows"]):
        env.witness("C12/helper-visible/show-tables", str(o3["rows"])[:300])
    o4 = core.run_stmt(cur, "SELECT table_name FROM information_schema.tables")
    if o4["ok"] and any("MERGE_CANDIDATES" in str(row).upper() for row in o4["rows"]):
        env.witness("C12/helper-visible/information-schema", str(o4["rows"])[:300])
    if case["txn"]:
        env.count("cmp_rollback")
        cur.execute("ROLLBACK")
        if read("TGT") != before_ms or read("TGT", own) != before_ms:
            env.witness("C12/rollback-left-trace", f"{sql}: target after ROLLBACK {dict(read('TGT'))}")
    if has_effect:
        env.nontrivial(case)
