"""C14 connect() does what its options say in every configuration.

Monitor: ConnectModel over the complete product of arguments x flags x storage x prior state
x a second connect; catalog read through the raw engine connection before/after."""

from __future__ import annotations

import itertools
import os
import shutil
import tempfile
from typing import Any

from fsverif import core

ID = "C14"
LEVEL = "exploration"
BUDGET = {"quick": 80, "thorough": 600}
EXHAUSTIVE = {"quick": False, "thorough": True}
RULE = (
    "the complete product database {absent, db1, DB1, Db1} x schema {absent, s1, S1, information_schema, INFORMATION_SCHEMA} "
    "x create_database x create_schema x storage {memory, fresh db_path, re-opened db_path with existing files} x prior state "
    "{nothing, database only, database+schema+table, other objects and a live session} x second connect {none, same, other "
    "schema, no arguments, other letter case}; quick runs the memory storage third. Every configuration is distinct; "
    "non-trivial = a database argument is given."
)
REQUIRED = ["cmp_attrs", "cmp_catalog", "cmp_probe", "cmp_other_session", "cmp_engine_context"]
ASSUMPTIONS = [
    "prior objects are created by CREATE DATABASE / CREATE SCHEMA statements on a connection without context (or, for the "
    "re-opened path, by an earlier instance that was closed)",
    "a database counts as existing when it is attached to the instance; for a re-opened path its file exists but it is "
    "attached only by a connect that is allowed to create the database",
]

DBS = [None, "db1", "DB1", "Db1"]
SCS = [None, "s1", "S1", "information_schema", "INFORMATION_SCHEMA"]
STORAGE = ["memory", "path_fresh", "path_reopen"]
PRIOR = ["nothing", "db", "db_schema", "other_live", "open_txn"]
SECOND = ["none", "same", "other_schema", "noargs", "other_case", "other_db", "same_after_drop_schema"]


def gen_cases(tier: str, seed: int):
    # instances that also carry nop_regexes (connect's own set-up is not a user statement), names with _ and $ next to
    # look-alike objects (DBX1 / SX1 exist, DB_1 / S_1 are asked for)
    for prior in [p for p in PRIOR if p not in ("other_live", "open_txn")] + ["lookalike"]:  # (the other_live preparation itself uses USE)
        for db in ("db1", "data_warehouse", "db_1"):
            for sc in (None, "s1", "s_1", "sales$eu"):
                for cd, cs in ((True, True), (True, False), (False, False)):
                    yield {"storage": "memory", "prior": prior, "db": db, "sc": sc, "cd": cd, "cs": cs, "second": "none", "nop": prior != "lookalike"}
    # a connect that fails (illegal name, db_path that is not there) leaves the instance able to connect
    for how in ("illegal-schema-name", "illegal-database-name", "db-path-missing"):
        yield {"kind": "after_failed_connect", "how": how}
    if tier == "quick":  # a slice of the file modes on every change
        for st, prior, db, sc, cd, cs in itertools.product(
            ["path_fresh", "path_reopen"], PRIOR, [None, "db1"], [None, "s1", "information_schema"], (True, False), (True, False)
        ):
            yield {"storage": st, "prior": prior, "db": db, "sc": sc, "cd": cd, "cs": cs, "second": "none"}
    # the full product of configurations last: a time budget trims this part only
    storages = ["memory"] if tier == "quick" else STORAGE
    for st, prior, db, sc, cd, cs, second in itertools.product(
        storages, PRIOR, DBS, SCS, (True, False), (True, False), SECOND
    ):
        if tier == "quick" and second not in ("none", "other_schema", "other_db", "same_after_drop_schema"):
            continue
        yield {"storage": st, "prior": prior, "db": db, "sc": sc, "cd": cd, "cs": cs, "second": second}


class World:
    """Model of what exists: attached databases -> schemas -> tables; and files on disk."""

    def __init__(self) -> None:
        self.attached: dict[str, dict[str, set]] = {}
        self.files: dict[str, dict[str, set]] = {}  # database file contents (path modes)

    def new_db(self, db: str, from_file: bool) -> None:
        if from_file and db in self.files:
            self.attached[db] = {k: set(v) for k, v in self.files[db].items()}
        else:
            self.attached[db] = {}

    def user(self) -> tuple[set, set, set]:
        dbs = set(self.attached)
        schemas = {(d, s) for d, ss in self.attached.items() for s in ss}
        tables = {(d, s, t) for d, ss in self.attached.items() for s, ts in ss.items() for t in ts}
        return dbs, schemas, tables


def _observe(fs: Any) -> tuple[set, set, set]:
    snap = core.snapshot(fs, data=False)
    dbs = {d for d in snap["dbs"] if d not in ("memory", "_fs_global")}
    schemas = {(d, s) for d, s in snap["schemas"] if d in dbs and s not in ("main", "information_schema")}
    tables = {(d, s, t) for d, s, t in snap["tables"] if d in dbs and not t.startswith("_fs_")}
    return dbs, schemas, tables


def _prep(fs: Any, world: World, prior: str, path_mode: bool) -> Any:
    """Create the prior state with statements; returns a live other session (or None)."""
    other = None
    if prior in ("db", "db_schema", "open_txn"):
        c = fs.connect()
        cur = c.cursor()
        cur.execute("CREATE DATABASE DB1")
        world.new_db("DB1", False)
        if prior in ("db_schema", "open_txn"):
            cur.execute("CREATE SCHEMA DB1.S1")
            cur.execute("CREATE TABLE DB1.S1.PROBE_T (ID INT, NAME VARCHAR(20)) COMMENT = 'probe table'")
            cur.execute("INSERT INTO DB1.S1.PROBE_T (ID) VALUES (1), (2)")
            world.attached["DB1"]["S1"] = {"PROBE_T"}
        if prior == "open_txn":
            # another session of the instance is in the middle of a transaction that has written to that database
            cur.execute("BEGIN")
            cur.execute("INSERT INTO DB1.S1.PROBE_T (ID) VALUES (3)")
            other = c
    elif prior == "lookalike":
        c = fs.connect()
        cur = c.cursor()
        for s_ in ("CREATE DATABASE DBX1", "CREATE SCHEMA DBX1.SX1", "CREATE SCHEMA DBX1.S_1", "CREATE DATABASE DB11", "CREATE SCHEMA DB11.S11"):
            cur.execute(s_)
        world.new_db("DBX1", False)
        world.attached["DBX1"]["SX1"] = set()
        world.attached["DBX1"]["S_1"] = set()
        world.new_db("DB11", False)
        world.attached["DB11"]["S11"] = set()
    elif prior == "other_live":
        c = fs.connect()
        cur = c.cursor()
        cur.execute("CREATE DATABASE OTHER")
        cur.execute("CREATE SCHEMA OTHER.OS")
        cur.execute("CREATE TABLE OTHER.OS.OT (ID INT)")
        cur.execute("INSERT INTO OTHER.OS.OT VALUES (7)")
        cur.execute("USE DATABASE OTHER")
        cur.execute("USE SCHEMA OS")
        world.new_db("OTHER", False)
        world.attached["OTHER"]["OS"] = {"OT"}
        other = c
    return other


def _after_failed_connect(case: dict, env: core.Env) -> None:
    import threading

    how = case["how"]
    tmp = tempfile.mkdtemp(prefix="fsverif-c14f-")
    try:
        fs = core.new_fs(db_path=os.path.join(tmp, "not", "there")) if how == "db-path-missing" else core.new_fs()
        try:
            args = {"illegal-schema-name": ("db1", "not a legal-name"), "illegal-database-name": ("sales-eu", "s1"), "db-path-missing": ("db1", "s1")}[how]
            failed = False
            try:
                fs.connect(*args)
            except Exception:  # noqa: BLE001
                failed = True
            env.count("cmp_attrs")
            if not failed:
                return  # this spelling is accepted here: nothing to examine
            if how == "db-path-missing":
                os.makedirs(os.path.join(tmp, "not", "there"))
            box: list = []

            def later() -> None:
                try:
                    c = fs.connect("db2", "s2")
                    box.append(("ok", (c.database, c.schema, c.database_set, c.schema_set), c.cursor().execute("SELECT 1").fetchall()))
                except BaseException as e:  # noqa: BLE001
                    box.append(("exc", f"{type(e).__name__}: {e}"[:200]))

            th = threading.Thread(target=later, daemon=True)
            th.start()
            th.join(15)
            if not box:
                env.witness(f"C14/connect-hangs-after-a-failed-connect/{how}", "a well-formed connect() did not return within 15 s")
            elif box[0][0] == "exc":
                env.witness(f"C14/connect-raised/after-a-failed-connect/{how}", box[0][1])
            elif box[0][1:] != (("DB2", "S2", True, True), [(1,)]):
                env.witness(f"C14/context-flags/after-a-failed-connect/{how}", str(box[0]))
            env.nontrivial(("after_failed_connect", how))
        finally:
            try:
                fs.duck_conn.close()
            except Exception:  # noqa: BLE001
                pass
    finally:
        shutil.rmtree(tmp, ignore_errors=True)


def run_case(case: dict, env: core.Env) -> None:
    if case.get("kind") == "after_failed_connect":
        return _after_failed_connect(case, env)
    st = case["storage"]
    tmp = None
    world = World()
    fs = None
    try:
        if st == "memory":
            extra = {"nop_regexes": [r"^USE\b", r".*WAREHOUSE.*", r"^ALTER SESSION"]} if case.get("nop") else {}
            fs = core.new_fs(create_database_on_connect=case["cd"], create_schema_on_connect=case["cs"], **extra)
            other = _prep(fs, world, case["prior"], False)
        else:
            tmp = tempfile.mkdtemp(prefix="fsverif-c14-")
            if st == "path_fresh":
                fs = core.new_fs(create_database_on_connect=case["cd"], create_schema_on_connect=case["cs"], db_path=tmp)
                other = _prep(fs, world, case["prior"], True)
            else:
                fs0 = core.new_fs(db_path=tmp)
                w0 = World()
                o = _prep(fs0, w0, case["prior"], True)
                del o
                fs0.duck_conn.close()
                world.files = w0.attached
                fs = core.new_fs(create_database_on_connect=case["cd"], create_schema_on_connect=case["cs"], db_path=tmp)
                other = None
        _drive(case, env, fs, world, other, st)
    finally:
        if fs is not None:
            try:
                fs.duck_conn.close()
            except Exception:  # noqa: BLE001
                pass
        if tmp:
            shutil.rmtree(tmp, ignore_errors=True)


def _args_for(case: dict, which: str) -> tuple[str | None, str | None] | None:
    db, sc = case["db"], case["sc"]
    if which in ("first", "same", "same_after_drop_schema"):
        return db, sc
    if which == "other_schema":
        return db, "s2"
    if which == "other_db":  # the same schema name in another database
        return "db9", sc
    if which == "noargs":
        return None, None
    if which == "other_case":
        return (db.swapcase() if db else db), (sc.swapcase() if sc else sc)
    return None


def _drive(case: dict, env: core.Env, fs: Any, world: World, other: Any, st: str) -> None:
    other_state = (core.session_state(other), core.engine_context(other)) if other is not None else None
    sessions = []
    for which in ("first", case["second"]):
        args = _args_for(case, which)
        if args is None:
            continue
        if which == "same_after_drop_schema":
            # the schema of the first connect is dropped by a statement (of another session) in between
            D, S = (args[0] or "").upper(), (args[1] or "").upper()
            if not (D in world.attached and S in world.attached[D]) or world.attached[D][S]:
                return  # nothing to drop (or it holds the probe table)
            dropper = fs.connect()
            try:
                dropper.cursor().execute(f"DROP SCHEMA {D}.{S}")
            except Exception as e:  # noqa: BLE001
                env.witness(f"C14/drop-schema-rejected/{type(e).__name__}", str(e)[:200])
                return
            del world.attached[D][S]
            sessions.clear()  # the first session's current schema is gone: its context is C03's business
        ok = _one_connect(case, env, fs, world, args, st, which)
        if ok is None:
            return
        sessions.append(ok)
        # earlier sessions undisturbed
        for (conn, state, ctx) in sessions[:-1]:
            env.count("cmp_other_session")
            if core.session_state(conn) != state or core.engine_context(conn) != ctx:
                env.witness("C14/earlier-session-disturbed", f"{case}: {state}/{ctx} -> {core.session_state(conn)}/{core.engine_context(conn)}")
        if other is not None:
            env.count("cmp_other_session")
            now = (core.session_state(other), core.engine_context(other))
            if now != other_state:
                env.witness("C14/other-session-disturbed", f"{case}: {other_state} -> {now}")
            if case["prior"] == "open_txn":
                # its transaction is still open, with its uncommitted row
                got = sorted(other.cursor().execute("SELECT ID FROM DB1.S1.PROBE_T").fetchall())
                if got != [(1,), (2,), (3,)]:
                    env.witness("C14/other-session-transaction-disturbed", f"{got}")
            else:
                got = other.cursor().execute("SELECT ID FROM OT").fetchall()
                if got != [(7,)]:
                    env.witness("C14/other-session-data", f"{got}")
    if case["db"]:
        env.nontrivial(case)


def _one_connect(case: dict, env: core.Env, fs: Any, world: World, args: tuple, st: str, which: str) -> Any:
    db_arg, sc_arg = args
    db = db_arg.upper() if db_arg else None
    sc = sc_arg.upper() if sc_arg else None
    cd, cs = case["cd"], case["cs"]

    # ---- model
    db_before = db is not None and db in world.attached
    created_db = bool(cd and db and not db_before)
    if created_db:
        world.new_db(db, from_file=(st == "path_reopen"))
    db_exists = db is not None and db in world.attached
    builtin_schema = sc in ("INFORMATION_SCHEMA", "MAIN")
    sc_before = db_exists and sc is not None and (builtin_schema or sc in world.attached[db])
    created_sc = bool(cs and db and sc and db_exists and not sc_before)
    if created_sc:
        world.attached[db][sc] = set()
    sc_exists = db_exists and sc is not None and (builtin_schema or sc in world.attached[db])

    cfg = (
        f"cd={int(cd)},cs={int(cs)},db={'none' if not db else ('exists' if db_before else 'missing')},"
        f"sc={'none' if not sc else ('builtin' if builtin_schema else ('exists' if sc_before else 'missing'))}"
    )
    env.cover("config", f"{st}/{cfg}")
    env.cover("which", which)

    before = _observe(fs)
    try:
        conn = fs.connect(db_arg, sc_arg)
    except Exception as e:  # noqa: BLE001
        env.witness(f"C14/connect-raised/{type(e).__name__}/{cfg}", f"connect({db_arg!r},{sc_arg!r}) {st} prior={case['prior']}: {e}"[:600])
        return None
    env.count("cmp_attrs")
    if conn.database != db or conn.schema != sc:
        env.witness(f"C14/attrs/{cfg}", f"conn.database/schema = {conn.database!r}/{conn.schema!r} expected {db!r}/{sc!r}")
    if conn.database_set != db_exists or conn.schema_set != bool(sc_exists):
        env.witness(
            f"C14/context-flags/{cfg}",
            f"database_set/schema_set = {conn.database_set}/{conn.schema_set} expected {db_exists}/{bool(sc_exists)} "
            f"for connect({db_arg!r},{sc_arg!r}) {st} prior={case['prior']}",
        )
    env.count("cmp_catalog")
    after = _observe(fs)
    exp = world.user()
    if after != exp:
        names = ("databases", "schemas", "tables")
        diffs = [f"{n}: unexpected {sorted(a - e)} missing {sorted(e - a)}" for n, a, e in zip(names, after, exp) if a != e]
        kind = "unexpected" if any(a - e for a, e in zip(after, exp)) else "missing"
        env.witness(f"C14/catalog/{kind}-objects/{cfg}", f"connect({db_arg!r},{sc_arg!r}) {st} prior={case['prior']}: {diffs}; before={before}")
    env.count("cmp_engine_context")
    ectx = core.engine_context(conn)
    if db_exists and sc_exists:
        if (ectx[0].upper(), ectx[1].upper()) != (db, sc):
            env.witness(f"C14/engine-context/{cfg}", f"engine context {ectx} expected {(db, sc)}")
    elif db_exists:
        if ectx[0].upper() != db:
            env.witness(f"C14/engine-context/{cfg}", f"engine context {ectx} expected database {db}")
    # ---- behaviour of a first unqualified statement
    env.count("cmp_probe")
    out = core.run_stmt(conn.cursor(), "SELECT COUNT(*) FROM PROBE_T")
    if not db_exists:
        want = "90105"
    elif not sc_exists:
        want = "90106"
    elif "PROBE_T" in (world.attached[db].get(sc) or ()):
        want = "rows"
    else:
        want = "2003"
    if out["ok"]:
        got = "rows" if out["rows"] == [(2,)] else f"rows={out['rows']}"
    elif out["exc"]["kind"] == "snowflake":
        got = str(out["exc"].get("errno"))
        if got in ("90105", "90106") and out["exc"].get("sqlstate") != "22000":
            got += "-wrong-sqlstate"
    else:
        got = out["exc"]["cls"]
    if got != want:
        env.witness(f"C14/probe/expected-{want}/got-{got}/{cfg}", f"SELECT COUNT(*) FROM PROBE_T after connect({db_arg!r},{sc_arg!r}) {st} prior={case['prior']}: {out.get('exc') or out.get('rows')}")
    # existing data undisturbed
    if "DB1" in world.attached and "PROBE_T" in world.attached["DB1"].get("S1", ()):
        rawc = core.raw_root(fs).cursor()
        rows = rawc.execute("select count(*) from DB1.S1.PROBE_T").fetchall()
        if rows != [(2,)]:
            env.witness("C14/data-disturbed", f"PROBE_T rows {rows}")
        # nor its recorded Snowflake-side metadata
        env.count("cmp_metadata_kept")
        meta = (rawc.execute("select comment from DB1.information_schema._fs_tables_ext where ext_table_name = 'PROBE_T'").fetchall(),
                rawc.execute("select ext_column_name, ext_character_maximum_length from DB1.information_schema._fs_columns_ext where ext_table_name = 'PROBE_T'").fetchall())
        if meta != ([("probe table",)], [("NAME", 20)]):
            env.witness("C14/metadata-disturbed", f"after connect({db_arg!r},{sc_arg!r}) {st} prior={case['prior']}: recorded comment/lengths of PROBE_T are {meta}")
    return (conn, core.session_state(conn), core.engine_context(conn))
