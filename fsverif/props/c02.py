"""C02 Unquoted identifiers fold to upper case; quoted ones are kept verbatim.

Monitor: metamorphic twins - every zoo statement is run in a canonical spelling and in
respellings of its keywords / unquoted identifiers (and with unquoted identifiers written
as quoted upper-case) on identically prepared instances; the complete outcome, follow-up
snapshot and session state must be equal. Absolute part: reported names are upper-case
unless they come from a quoted identifier."""

from __future__ import annotations

import random
from collections import Counter
from typing import Any

from fsverif import core, zoo

ID = "C02"
LEVEL = "exploration"
BUDGET = {"quick": 75, "thorough": 600}
RULE = (
    "case = (zoo template, respelling) with respellings {UPPER, alternating, k random per-character flips, unquoted identifiers "
    "written as quoted upper-case}; the canonical spelling is all lower-case. Non-trivial = the respelled text differs from the "
    "canonical text and the template has at least one unquoted identifier; distinct = distinct (template, respelled text)."
)
REQUIRED = ["cmp_outcome", "cmp_snapshot", "cmp_session", "cmp_absolute_names", "cmp_dict_keys", "cmp_status_name", "cmp_api_names"]
ASSUMPTIONS = [
    "JSON path keys, string literals and quoted identifiers are never respelled (they are case-sensitive data)",
    "rows are compared as multisets unless the template has a total ORDER BY",
]

STATUS_OBJECT = {
    "ddl_quoted_case_pair": "METRICS",
    "ddl_create_table": "NEWT", "ddl_create_table_q": "NewQ", "ddl_ctas": "PEOPLE2", "ddl_clone": "CLONE1", "ddl_create_view": "V2",
    "ddl_create_schema": "S3", "ddl_create_schema_q": "s Quoted", "ddl_create_schema_fq": "S9", "ddl_create_database": "DB3",
    "ddl_drop_table": "ORDERS", "ddl_drop_view": "PEOPLE_V", "ddl_drop_schema": "S2", "ddl_create_with_comment": "T_C",
    "ddl_create_table_types": "TYPED",
    "ddl_create_table_identifier_fn": "NEWT_FN", "ddl_create_table_identifier_fn_fq": "NEWT_FQ", "ddl_create_table_identifier_fn_q": "newt_Fq",
    "ddl_drop_table_identifier_fn": "TMPD",
}
SESSION_AFTER = {"ses_use_database": ("DB2", None), "ses_use_schema": ("DB1", "S2"), "ses_use_schema_fq": ("DB2", "S1")}
VERBATIM = {"newt_Fq", "Mixed", "Col", "lower", "MyId", "NewQ", "s Quoted", "a", "Id", "Metrics"}
# quoted names are reported exactly as written: the description of these templates, and where their object ends up
EXPECT_DESC = {"q_quoted_case_pair_a": ["ID", "LOWER"], "q_quoted_case_pair_b": ["Id", "lower"], "q_cte_quoted_def": ["N"], "q_cte_quoted_ref": ["N"], "q_quoted_upper_special": ["ORDER ID", "A.B", "UNIT-PRICE", "COUNT(*)"], "ddl_create_table_q_dotted": ["ORDER ID"], "q_quoted": ["Col", "lower"]}
EXPECT_ROWS = {"ddl_case_variant_recreate": [("NAME", 3)]}
# templates that only name CTEs and fully qualified objects also run in a session without a current schema
NOSCHEMA = {"q_cte_quoted_def", "q_cte_quoted_ref", "q_cte"}
EXPECT_TABLE = {"ddl_quoted_case_pair": ["DB1", "S1", "METRICS"], "ddl_create_table_q_dotted": ["DB1", "S1", "S2.DOTTED"], "ddl_create_table_q": ["DB1", "S1", "NewQ"],
                "ddl_create_table_identifier_fn": ["DB1", "S1", "NEWT_FN"], "ddl_create_table_identifier_fn_fq": ["DB1", "S1", "NEWT_FQ"],
                "ddl_create_table_identifier_fn_q": ["DB1", "S1", "newt_Fq"]}


def gen_cases(tier: str, seed: int):
    r = random.Random(f"{seed}:C02")
    k = 3 if tier == "quick" else 37
    # names handed over as API arguments (write_pandas' table / schema / database) are unquoted identifiers too
    for spelling in ("lower", "Capital", "aLtErNaTiNg"):
        for existing in (True, False):
            for auto in (True, False):
                for qualify in (0, 1, 2):
                    yield {"kind": "write_pandas_names", "spelling": spelling, "existing": existing, "auto": auto, "qualify": qualify}
    for z in zoo.ZOO:
        names = ["upper", "alternating"] + [f"random{j}" for j in range(k)] + ["quoted-upper"]
        for nm in names:
            yield {"tag": z["tag"], "spelling": nm, "flipseed": r.randrange(1 << 30)}


def _speller(name: str, flipseed: int):
    if name == "lower":
        return str.lower
    if name == "upper":
        return str.upper
    if name == "alternating":
        return lambda s: "".join(c.upper() if i % 2 else c.lower() for i, c in enumerate(s))

    occ = [0]

    def rnd(s: str) -> str:
        # every occurrence is respelled independently (the same identifier may be spelled differently twice)
        occ[0] += 1
        rr = random.Random(f"{flipseed}:{occ[0]}:{s}")
        return "".join(c.upper() if rr.random() < 0.5 else c.lower() for c in s)

    return rnd


def render_case(tmpl: str, spelling: str, flipseed: int) -> str:
    if spelling == "quoted-upper":
        parts = []
        for kind, text in zoo.segments(tmpl):
            if kind == "id":
                parts.append('"' + text.upper() + '"')
            elif kind == "qid":
                parts.append('"' + text + '"')
            elif kind == "kw":
                parts.append(text.lower())
            else:
                parts.append(text)
        return "".join(parts)
    return zoo.render(tmpl, _speller(spelling, flipseed))


_state: dict[str, Any] = {}


def setup_worker(env: core.Env) -> None:
    _state["ro"] = None  # shared instance for non-mutating templates


def _fresh() -> tuple[Any, Any]:
    fs = core.new_fs()
    return fs, zoo.build_fixture(fs)


def _run(conn: Any, stmts: list[str], dict_cursor: bool = False) -> dict:
    cur = conn.cursor(core.DictCursor) if dict_cursor else conn.cursor()
    out: dict = {}
    for s in stmts:
        out = core.run_stmt(cur, s)
        if not out["ok"]:
            break
    res: dict[str, Any] = {"ok": out["ok"]}
    if out["ok"]:
        res["rows"] = out["rows"]
        res["rowcount"] = out["rowcount"]
        d = core.read_description(cur)
        res["desc"] = d["names"] if d["ok"] else "description-raises:" + d["exc"]["cls"]
    else:
        e = out["exc"]
        res["exc"] = (e["cls"], e.get("errno"), e.get("sqlstate"), (e.get("rawmsg") or e["msg"]).lower())
    res["sqlstate"] = out.get("sqlstate")
    return res


def _norm(res: dict, ordered: bool) -> dict:
    r = dict(res)
    if r.get("rows") is not None and not ordered:
        r["rows"] = sorted(Counter(repr(x) for x in r["rows"]).items())
    return r


def _write_pandas_names(case: dict, env: core.Env) -> None:
    import pandas as pd

    import fakesnow.fakes as fakes

    def sp(name: str, how: str) -> str:
        if how == "UPPER":
            return name
        if how == "lower":
            return name.lower()
        if how == "Capital":
            return name.capitalize()
        return "".join(ch.lower() if i % 2 == 0 else ch.upper() for i, ch in enumerate(name))

    results = []
    insts = []
    try:
        for how in ("UPPER", case["spelling"]):
            fs = core.new_fs()
            insts.append(fs)
            conn = fs.connect("db1", "s1")
            cur = conn.cursor()
            cur.execute("CREATE SCHEMA S2")
            if case["existing"]:
                cur.execute("CREATE TABLE DB1.S2.CUSTOMERS (ID INT, NAME VARCHAR)" if case["qualify"] else "CREATE TABLE CUSTOMERS (ID INT, NAME VARCHAR)")
                cur.execute(f"INSERT INTO {'DB1.S2.' if case['qualify'] else ''}CUSTOMERS VALUES (1, 'first')")
            kw: dict = {"auto_create_table": True} if case["auto"] else {}
            if case["qualify"] >= 1:
                kw["schema"] = sp("S2", how)
            if case["qualify"] == 2:
                kw["database"] = sp("DB1", how)
            df = pd.DataFrame({"ID": [2, 3], "NAME": ["second", "third"]})
            try:
                res = fakes.write_pandas(conn, df, sp("CUSTOMERS", how), **kw)
                out: Any = ("ok", res[0], res[2])
            except Exception as e:  # noqa: BLE001
                ei = core.exc_info(e)
                out = ("raised", ei["cls"], ei.get("errno"))
            results.append((out, core.snapshot(fs)))
        env.count("cmp_api_names")
        (oa, sa), (ob, sb) = results
        cfg = f"{'existing' if case['existing'] else 'missing'}-table/{'auto-create' if case['auto'] else 'no-auto-create'}/qualify{case['qualify']}"
        if oa != ob:
            env.witness(f"C02/write_pandas-names/outcome-differs/{cfg}", f"names in upper case -> {oa} but spelled {case['spelling']} -> {ob}")
        elif sa != sb:
            env.witness(f"C02/write_pandas-names/state-differs/{cfg}", f"spelled {case['spelling']}: {core.snap_diff(sa, sb)}"[:700])
        env.nontrivial(("write_pandas_names", case["spelling"], cfg))
    finally:
        for fs in insts:
            fs.duck_conn.close()


def run_case(case: dict, env: core.Env) -> None:
    if case.get("kind") == "write_pandas_names":
        return _write_pandas_names(case, env)
    z = zoo.BY_TAG[case["tag"]]
    spelling = case["spelling"]
    if spelling == "quoted-upper" and (any("${i:" in s or "identifier(" in s for s in z["stmts"]) or z["tag"].startswith(("ses_set", "ses_unset"))):
        return  # session-variable names and IDENTIFIER() arguments are not object identifiers
    canon = [render_case(s, "lower", 0) for s in z["stmts"]]
    resp = [render_case(s, spelling, case["flipseed"]) for s in z["stmts"]]
    has_ident = any(k == "id" for s in z["stmts"] for k, _ in zoo.segments(s))
    env.cover("template_x_spelling", f"{z['tag']}/{spelling if not spelling.startswith('random') else 'random'}")
    if z["mutates"]:
        fa, ca = _fresh()
        fb, cb = _fresh()
    else:
        if _state["ro"] is None:
            _state["ro"] = _fresh()
        fa, ca = _state["ro"]
        fb, cb = fa, ca
    if z["tag"] in NOSCHEMA and case["flipseed"] % 2:
        ca = cb = fa.connect("db1")
        env.count("cases_in_session_without_schema")
    try:
        ra = _run(ca, canon)
        rb = _run(cb, resp)
        env.count("cmp_outcome")
        na, nb = _norm(ra, z["ordered"]), _norm(rb, z["ordered"])
        if spelling == "quoted-upper" and "exc" in na and "exc" in nb:
            # engine messages echo the statement text, which legitimately differs when identifiers are quoted (S6)
            na["exc"], nb["exc"] = na["exc"][:3], nb["exc"][:3]
        kind = z["tag"].split("_")[0]
        if na != nb:
            field = next(k for k in sorted(set(na) | set(nb)) if na.get(k) != nb.get(k))
            sp = "quoted-upper" if spelling == "quoted-upper" else "case"
            env.witness(
                f"C02/outcome-differs/{z['tag']}/{field}/{sp}",
                f"{canon[-1]!r} -> {str(ra)[:400]}  BUT  {resp[-1]!r} -> {str(rb)[:400]}",
            )
            return
        if z["mutates"]:
            env.count("cmp_snapshot")
            sa, sb = core.snapshot(fa), core.snapshot(fb)
            if sa != sb:
                env.witness(f"C02/followup-state-differs/{z['tag']}", f"{resp[-1]!r}: {core.snap_diff(sa, sb)}"[:900])
                return
            env.count("cmp_session")
            if core.session_state(ca) != core.session_state(cb):
                env.witness(f"C02/session-differs/{z['tag']}", f"{resp[-1]!r}: {core.session_state(ca)} vs {core.session_state(cb)}")
                return
        # ---- absolute part (on the respelled run)
        if rb["ok"] and isinstance(rb.get("desc"), list) and kind in ("q", "is"):
            env.count("cmp_absolute_names")
            bad = [n for n in rb["desc"] if n != n.upper() and n not in VERBATIM and not n.startswith(("current_", "count", "CAST"))]
            bad = [n for n in bad if any(ch.isalpha() for ch in n) and "(" not in n]
            if bad:
                where = "information-schema-column" if kind == "is" else z["tag"]
                env.witness(f"C02/reported-name-not-upper/{where}", f"{resp[-1]!r}: description names {rb['desc']}")
            # DictCursor keys are the description names
            env.count("cmp_dict_keys")
            rd = _run(cb, resp, dict_cursor=True)
            if rd["ok"] and rd["rows"]:
                keys = list(rd["rows"][0].keys())
                badk = [n for n in keys if n != n.upper() and n not in VERBATIM and any(ch.isalpha() for ch in n) and "(" not in n]
                if badk and kind != "is":
                    env.witness(f"C02/dict-key-not-upper/{z['tag']}", f"{resp[-1]!r}: DictCursor keys {keys}")
                # (agreement of the keys with cursor.description is C06's monitor)
        if z["tag"] in EXPECT_DESC:
            env.count("cmp_absolute_names")
            if not rb["ok"]:
                env.witness(f"C02/quoted-name-rejected/{z['tag']}", f"{resp[-1]!r}: {rb.get('exc')}")
            elif rb.get("desc") != EXPECT_DESC[z["tag"]]:
                env.witness(f"C02/quoted-name-not-verbatim/{z['tag']}", f"{resp[-1]!r}: description names {rb.get('desc')} expected {EXPECT_DESC[z['tag']]}")
        if z["tag"] in EXPECT_ROWS and rb["ok"]:
            env.count("cmp_absolute_names")
            if [tuple(x) for x in rb["rows"]] != EXPECT_ROWS[z["tag"]]:
                env.witness(f"C02/case-variant-names-mixed-up/{z['tag']}", f"{resp[-1]!r}: {rb['rows']} expected {EXPECT_ROWS[z['tag']]}")
        if z["tag"] in EXPECT_TABLE and rb["ok"]:
            env.count("cmp_absolute_names")
            tabs = core.snapshot(fb, data=False)["tables"]
            if EXPECT_TABLE[z["tag"]] not in [list(t) for t in tabs]:
                env.witness(f"C02/quoted-name-not-verbatim/{z['tag']}/catalog", f"{resp[0]!r}: no table {EXPECT_TABLE[z['tag']]} among {[t for t in tabs if not t[2].startswith('_fs_')]}")
        if z["tag"] in STATUS_OBJECT and rb["ok"]:
            env.count("cmp_status_name")
            msg = str(rb["rows"])
            if STATUS_OBJECT[z["tag"]] not in msg:
                env.witness(f"C02/status-name/{z['tag']}", f"{resp[-1]!r}: status {msg} should name {STATUS_OBJECT[z['tag']]}")
        if z["tag"] in SESSION_AFTER and rb["ok"]:
            env.count("cmp_status_name")
            want = SESSION_AFTER[z["tag"]]
            got = (cb.database, cb.schema)
            if got != want:
                env.witness(f"C02/session-names/{z['tag']}", f"{resp[-1]!r}: conn.database/schema {got} expected {want}")
        if has_ident and resp != canon:
            env.nontrivial((z["tag"], resp))
    finally:
        if z["mutates"]:
            fa.duck_conn.close()
            fb.duck_conn.close()
