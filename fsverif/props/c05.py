"""C05 Fetch calls hand out every result row once, in order, at full width.

Monitor: sequential list model over a fetch script, run against the real cursor."""

from __future__ import annotations

import itertools
import random
from typing import Any

from fsverif import core

ID = "C05"
LEVEL = "exploration"
BUDGET = {"quick": 60, "thorough": 420}
RULE = (
    "case = (result size n, select-list pattern incl. repeated/quoted names and self-joins, cursor kind, fetch script "
    "over {fetchone, fetchmany(k), arraysize:=a;fetchmany(), fetchall, fetch_pandas_all, rowcount, re-execute, executemany of a query with 0..3 parameter sets}); all scripts "
    "up to a bounded length are enumerated for small n, then random scripts for n up to 3000. A case is non-trivial when "
    "n>=1 and the script hands out at least one row and at least one model comparison was evaluated; distinct = distinct "
    "(n, pattern, cursor kind, script)."
)
REQUIRED = ["cmp_handout", "cmp_exhaustion", "cmp_width", "cmp_dict", "cmp_before_execute", "executemany_queries"]
ASSUMPTIONS = [
    "fixture table is created through the raw engine connection; expected rows are computed from the row id",
    "DictCursor is only compared when the reported column names are distinct (a dict cannot hold repeated keys)",
]

BIGN = 3000

# select items: (sql, reported name, value function of id)
ITEMS = [
    ("id", "ID", lambda i: i),
    ("v", "V", lambda i: i * 2),
    ("s", "S", lambda i: f"s{i}"),
    ("id AS a", "A", lambda i: i),
    ("v AS a", "A", lambda i: i * 2),
    ('id AS "x"', "x", lambda i: i),
    ('s AS "x"', "x", lambda i: f"s{i}"),
    ("NULL AS n", "N", lambda i: None),
    ('v AS "A"', "A", lambda i: i * 2),
    ("f", "F", lambda i: i / 4),
    ("b", "B", lambda i: i % 2 == 0),
    ("s AS id", "ID", lambda i: f"s{i}"),
    ("id + 1 AS v", "V", lambda i: i + 1),
]
JOIN_ITEMS = [
    ("t1.id", "ID", lambda i: i),
    ("t2.id", "ID", lambda i: i),
    ("t1.s", "S", lambda i: f"s{i}"),
    ("t2.v", "V", lambda i: i * 2),
    ("t2.s", "S", lambda i: f"s{i}"),
]
STAR_JOIN = [("ID", lambda i: i), ("V", lambda i: i * 2), ("S", lambda i: f"s{i}"), ("F", lambda i: i / 4),
             ("B", lambda i: i % 2 == 0)] * 2


def build_query(n: int, pat: dict) -> tuple[str, list[str], list[tuple]]:
    kind = pat["kind"]
    if kind == "plain":
        items = [ITEMS[j] for j in pat["items"]]
        sql = f"SELECT {', '.join(it[0] for it in items)} FROM big WHERE big.id < {n} ORDER BY big.id"
        names = [it[1] for it in items]
        rows = [tuple(it[2](i) for it in items) for i in range(n)]
    elif kind == "join":
        items = [JOIN_ITEMS[j] for j in pat["items"]]
        sql = (
            f"SELECT {', '.join(it[0] for it in items)} FROM big t1 JOIN big t2 ON t1.id = t2.id "
            f"WHERE t1.id < {n} ORDER BY t1.id"
        )
        names = [it[1] for it in items]
        rows = [tuple(it[2](i) for it in items) for i in range(n)]
    elif kind == "starjoin":
        sql = f"SELECT * FROM big t1 JOIN big t2 ON t1.id = t2.id WHERE t1.id < {n} ORDER BY t1.id"
        names = [x[0] for x in STAR_JOIN]
        rows = [tuple(x[1](i) for x in STAR_JOIN) for i in range(n)]
    elif kind == "dml":
        # the status row of a DML statement is a one-row result that obeys the same fetch discipline
        k = min(n, 5)
        which = pat["which"]
        if which == "insert":
            sql = f"INSERT INTO scratch SELECT id, v FROM big WHERE big.id < {k}"
            names, rows = ["number of rows inserted"], [(k,)]
        elif which == "update":
            sql = f"UPDATE scratch SET v = v + 1 WHERE id < {k}"
            names, rows = ["number of rows updated", "number of multi-joined rows updated"], [(k, 0)]
        else:
            sql = f"DELETE FROM scratch WHERE id >= 1000 AND id < {1000 + k}"
            names, rows = ["number of rows deleted"], [(0,)]
    elif kind == "nop":
        sql = pat["sql"]
        names, rows = ["status"], [("Statement executed successfully.",)]
    elif kind == "shape":
        # always the same statement text; the table behind it is re-made with k columns before every execute
        k = pat["cols"]
        sql = "SELECT * FROM shp ORDER BY 1"
        names = [f"C{j}" for j in range(k)]
        rows = [tuple(i * 10 + j for j in range(k)) for i in range(min(n, 7))]
    elif kind == "values":
        # SELECT over a VALUES clause (snowflake columnN naming)
        m = pat["m"]
        vals = ", ".join("(" + ", ".join(str(i * 10 + j) for j in range(m)) + ")" for i in range(n)) or None
        if vals is None:
            sql = "SELECT 1 AS column1 WHERE 1 = 0"
            names = ["COLUMN1"]
            rows = []
        else:
            sql = f"SELECT * FROM VALUES {vals} ORDER BY 1"
            names = [f"COLUMN{j + 1}" for j in range(m)]
            rows = [tuple(i * 10 + j for j in range(m)) for i in range(n)]
    else:
        raise ValueError(kind)
    return sql, names, rows


def _alphabet(n: int) -> list[list]:
    ks = sorted({1, 2, 3, max(n, 1), n + 1})
    ops: list[list] = [["one"], ["all"], ["pandas"], ["rowcount"]]
    ops += [["many", k] for k in ks] + [["many", 0], ["many", -1]]  # fetchmany(0): no rows, the position stays; -1: refused
    ops += [["as_many", a] for a in (1, 2, n + 1)]
    ops += [["set_as", 2], ["set_as", 3], ["many_default"], ["many_default"]]
    return ops


def _random_pattern(r: random.Random) -> dict:
    x = r.random()
    if x < 0.55:
        m = r.randint(1, 8)
        items = [r.randrange(len(ITEMS)) for _ in range(m)]
        if r.random() < 0.5 and m >= 2:  # force a name collision
            a, b = r.choice([(0, 11), (3, 4), (5, 6), (3, 8), (1, 12), (0, 0), (2, 2)])
            items[0], items[-1] = a, b
        return {"kind": "plain", "items": items}
    if x < 0.8:
        m = r.randint(1, 5)
        return {"kind": "join", "items": [r.randrange(len(JOIN_ITEMS)) for _ in range(m)]}
    if x < 0.86:
        return {"kind": "starjoin"}
    if x < 0.93:
        return {"kind": "dml", "which": r.choice(["insert", "update", "delete"])}
    if x < 0.945:
        return {"kind": "shape", "cols": r.randint(1, 5)}
    if x < 0.96:
        return {"kind": "nop", "sql": r.choice(["CALL some_proc(1)", "call other()", "GRANT ALL ON big TO ROLE x"])}
    return {"kind": "values", "m": r.randint(1, 4)}


FIXED_PATTERNS = [
    {"kind": "plain", "items": [0, 1, 2]},
    {"kind": "plain", "items": [3, 4]},
    {"kind": "plain", "items": [5, 6, 0]},
    {"kind": "join", "items": [0, 1]},
    {"kind": "plain", "items": [0]},
    {"kind": "plain", "items": [3, 8, 7]},
    {"kind": "starjoin"},
    {"kind": "values", "m": 2},
    {"kind": "dml", "which": "update"},
    {"kind": "dml", "which": "delete"},
    {"kind": "dml", "which": "insert"},
    {"kind": "nop", "sql": "CALL some_proc(1)"},
]


def _gen_exhaustive(tier: str, r: random.Random, max_n: int, max_len: int):
    # exhaustive part
    for n in range(0, max_n + 1):
        alpha = _alphabet(n)
        for ln in range(1, max_len + 1):
            for script in itertools.product(alpha, repeat=ln):
                pat = FIXED_PATTERNS[r.randrange(len(FIXED_PATTERNS))]
                yield {"n": n, "pat": pat, "dict": r.random() < 0.3, "script": [list(s) for s in script], "part": "exh"}


def _gen_fixed(tier: str, r: random.Random, max_n: int, max_len: int):
    # the same statement text executed again over a table of another shape (1..5 columns), fetched in several ways
    for k1, k2, k3 in itertools.permutations([1, 2, 3, 5], 3):
        for d in (False, True):
            for mid in (["one"], ["many", 2], ["all"], ["rowcount"]):
                yield {"n": 4, "pat": {"kind": "shape", "cols": k1}, "dict": d, "part": "shape",
                       "script": [mid, ["reexec", 4, {"kind": "shape", "cols": k2}], ["one"], ["all"], ["reexec", 3, {"kind": "shape", "cols": k3}], ["many", 5]]}
    # executemany of a query: the cursor holds the result of the last parameter set (nothing changes for no sets at all)
    for ks in ([2, 5], [5, 2], [3], [], [0, 4], [4, 0], [1, 1, 1], [7, 300, 2]):
        for d in (False, True):
            for first in (["one"], ["rowcount"], ["many", 2]):
                yield {"n": 4, "pat": FIXED_PATTERNS[0], "dict": d, "part": "execmany",
                       "script": [first, ["reexec_many", ks], ["rowcount"], ["one"], ["rowcount"], ["many", 3], ["all"], ["rowcount"]]}
    # before-execute cases
    for op in (["one"], ["all"], ["many", 2], ["pandas"], ["as_many", 3]):
        for d in (False, True):
            yield {"n": 0, "pat": FIXED_PATTERNS[0], "dict": d, "script": [op], "part": "before"}


def _gen_random(tier: str, r: random.Random, max_n: int, max_len: int):
    # random part
    nrand = 2000 if tier == "quick" else 60000
    for _ in range(nrand):
        x = r.random()
        if x < 0.5:
            n = r.randint(0, 12)
        elif x < 0.8:
            n = r.randint(13, 300)
        else:
            n = r.choice([999, 1000, 1001, 2047, 2048, 2049, BIGN - 1, r.randint(300, BIGN - 1)])
        script = []
        for _ in range(r.randint(1, 10)):
            y = r.random()
            if y < 0.25:
                script.append(["one"])
            elif y < 0.55:
                script.append(["many", r.choice([0, 1, 2, 3, 7, 100, 1000, 1024, n or 1, n + 1, r.randint(1, max(1, n))])])
            elif y < 0.62:
                script.append(["as_many", r.choice([1, 2, 5, 64, 1000, n + 1])])
            elif y < 0.66:
                script.append(["set_as", r.choice([1, 2, 5, 64, 1000])])
            elif y < 0.7:
                script.append(["many_default"])
            elif y < 0.78:
                script.append(["all"])
            elif y < 0.85:
                script.append(["pandas"])
            elif y < 0.92:
                script.append(["rowcount"])
            elif y < 0.98:
                script.append(["reexec", r.randint(0, 40), _random_pattern(r)])
            else:
                script.append(["reexec_many", [r.randint(0, 12) for _ in range(r.randint(0, 3))]])
        yield {"n": n, "pat": _random_pattern(r), "dict": r.random() < 0.35, "script": script, "part": "rand"}




def gen_cases(tier: str, seed: int):
    """Fixed families first; then the exhaustive enumeration and the random scripts take turns, so that a time budget trims
    both instead of starving the one that comes last."""
    if tier == "thorough":
        # the repository's own tests as one more workload, under the always-on invariants
        yield {"kind": "repo_tests"}
    max_n, max_len = (3, 3) if tier == "quick" else (6, 4)
    yield from _gen_fixed(tier, random.Random(f"{seed}:C05:fixed"), max_n, max_len)
    its = [_gen_exhaustive(tier, random.Random(f"{seed}:C05"), max_n, max_len), _gen_random(tier, random.Random(f"{seed}:C05:random"), max_n, max_len)]
    while its:
        for it in list(its):
            took = 0
            for case in it:
                yield case
                took += 1
                if took >= 64:
                    break
            if took < 64:
                its.remove(it)


# ----------------------------------------------------------------------------
_state: dict[str, Any] = {}


def setup_worker(env: core.Env) -> None:
    fs = core.new_fs(nop_regexes=[r"^CALL\b", r"^GRANT\b"])
    conn = fs.connect("db1", "s1")
    raw = core.raw_root(fs).cursor()
    raw.execute(
        "CREATE TABLE DB1.S1.BIG AS SELECT i AS ID, i*2 AS V, 's' || i AS S, i/4 AS F, (i % 2 = 0) AS B "
        f"FROM range({BIGN}) t(i)"
    )
    raw.execute("CREATE TABLE DB1.S1.SCRATCH (ID BIGINT, V BIGINT)")
    raw.execute("INSERT INTO DB1.S1.SCRATCH SELECT i, i FROM range(5) t(i)")
    raw.close()
    _state.update(fs=fs, conn=conn)


def _reset_scratch() -> None:
    raw = core.raw_root(_state["fs"]).cursor()
    raw.execute("DELETE FROM DB1.S1.SCRATCH")
    raw.execute("INSERT INTO DB1.S1.SCRATCH SELECT i, i FROM range(5) t(i)")
    raw.close()


def _make_shape(k: int, n: int) -> None:
    raw = core.raw_root(_state["fs"]).cursor()
    cols = ", ".join(f"C{j} INT" for j in range(k))
    raw.execute(f"CREATE OR REPLACE TABLE DB1.S1.SHP ({cols})")
    for i in range(min(n, 7)):
        raw.execute(f"INSERT INTO DB1.S1.SHP VALUES ({', '.join(str(i * 10 + j) for j in range(k))})")
    raw.close()


def _check_description(env: core.Env, cur: Any, names: list, sql: str) -> bool:
    """The description of the result just executed names its columns (what DictCursor keys and tuple widths go by)."""
    env.count("cmp_description_names")
    d = core.read_description(cur)
    if d["ok"] and d["names"] != names:
        env.witness("C05/description-of-another-result", f"{sql}: description names {d['names']} but the result has columns {names}")
        return False
    return True


def _eq_rows(got: list, exp: list) -> bool:
    return got == exp


def run_case(case: dict, env: core.Env) -> None:
    if case.get("kind") == "repo_tests":
        return core.run_repo_tests_under_monitors(env, "C05/")
    conn = _state["conn"]
    n, pat, use_dict = case["n"], case["pat"], case["dict"]
    sql, names, rows = build_query(n, pat)
    distinct_names = len(set(names)) == len(names)
    dup = "dup-names" if not distinct_names else "distinct-names"
    if use_dict and not distinct_names:
        use_dict = False
    cur = conn.cursor(core.DictCursor) if use_dict else conn.cursor()
    env.cover("cursor_kind", "dict" if use_dict else "tuple")
    env.cover("pattern_kind", f"{pat['kind']}/{dup}" + (f"/{pat['which']}/affected={min(n, 5) if pat['which'] != 'delete' else 0}" if pat["kind"] == "dml" else ""))
    env.cover("n_class", "0" if n == 0 else "1" if n == 1 else "2-12" if n <= 12 else "13-999" if n < 1000 else ">=1000")

    def conv(rs: list) -> list:
        return [dict(zip(names, r)) for r in rs] if use_dict else rs

    if case["part"] == "before":
        op = case["script"][0]
        env.count("cmp_before_execute")
        try:
            if op[0] == "one":
                got = cur.fetchone()
            elif op[0] == "all":
                got = cur.fetchall()
            elif op[0] == "many":
                got = cur.fetchmany(op[1])
            elif op[0] == "as_many":
                cur.arraysize = op[1]
                got = cur.fetchmany()
            else:
                got = cur.fetch_pandas_all()
            env.witness(f"C05/before-execute/no-error/{op[0]}", f"fetch before execute returned {got!r}")
        except (TypeError, core.sferr.Error):
            pass
        except Exception as e:  # noqa: BLE001
            env.witness(f"C05/before-execute/wrong-error/{op[0]}", f"{type(e).__name__}: {e}")
        env.nontrivial(("before", op, use_dict))
        return

    if pat["kind"] == "dml":
        _reset_scratch()
    if pat["kind"] == "shape":
        _make_shape(pat["cols"], case["n"])
    cur.execute(sql)
    if not _check_description(env, cur, names, sql):
        return
    pos = 0
    handed = 0
    asz = cur.arraysize  # the connector's default (1) until the script sets it
    for step, op in enumerate(case["script"]):
        kind = op[0]
        env.cover("op", kind)
        if kind == "reexec":
            n, pat = op[1], op[2]
            sql, names, rows = build_query(n, pat)
            distinct_names = len(set(names)) == len(names)
            if use_dict and not distinct_names:
                # keep to distinct names under a dict cursor
                pat = {"kind": "plain", "items": [0, 1, 2]}
                sql, names, rows = build_query(n, pat)
            dup = "dup-names" if len(set(names)) != len(names) else "distinct-names"
            if pat["kind"] == "dml":
                _reset_scratch()
            if pat["kind"] == "shape":
                _make_shape(pat["cols"], n)
            cur.execute(sql)
            if not _check_description(env, cur, names, sql):
                return
            pos = 0
            continue
        if kind == "reexec_many":
            env.count("executemany_queries")
            msql = "SELECT ID, V FROM BIG WHERE ID < %s ORDER BY ID"
            cur.executemany(msql, [(k,) for k in op[1]])
            if op[1]:
                n, pat, names = op[1][-1], {"kind": "executemany"}, ["ID", "V"]
                sql, rows, dup, pos = f"executemany({msql!r}, {op[1]})", [(i, 2 * i) for i in range(n)], "distinct-names", 0
                if not _check_description(env, cur, names, sql):
                    return
            continue
        if kind == "rowcount":
            env.count("cmp_rowcount")
            want_rc = rows[0][0] if pat["kind"] == "dml" else len(rows)
            if pat["kind"] == "nop":
                want_rc = 1
            if cur.rowcount != want_rc:
                env.witness("C05/rowcount" + ("/after-executemany" if pat["kind"] == "executemany" else ""), f"rowcount={cur.rowcount} expected {want_rc} for {sql}; script {case['script'][:step + 1]}")
            continue
        if kind == "pandas":
            env.count("cmp_pandas")
            df = cur.fetch_pandas_all()
            if len(df) != len(rows) or len(df.columns) != len(names):
                env.witness(f"C05/pandas/shape/{dup}", f"df shape {df.shape} expected ({len(rows)},{len(names)}) {sql}")
            elif list(df.columns) != names:
                env.witness("C05/pandas/columns", f"{list(df.columns)} expected {names}")
            elif rows and isinstance(rows[0][0], int) and [int(x) for x in df.iloc[:, 0]] != [r[0] for r in rows]:
                env.witness("C05/pandas/values", f"first column {list(df.iloc[:, 0])[:5]}.. expected {[r[0] for r in rows][:5]}")
            continue
        if kind == "one":
            got = cur.fetchone()
            exp_l = rows[pos:pos + 1]
            got_l = [] if got is None else [got]
            if not exp_l and got is not None:
                pass
            pos += 1 if exp_l else 0
        elif kind == "many" and op[1] < 0:
            # a negative size is refused (as by the connector: ProgrammingError) and moves nothing
            env.count("cmp_negative_size")
            try:
                bad_rows = cur.fetchmany(op[1])
                env.witness("C05/negative-size/accepted", f"step {step} fetchmany({op[1]}) returned {str(bad_rows)[:120]}; {sql}")
                return
            except Exception as e:  # noqa: BLE001
                if core.exc_kind(e) != "snowflake":
                    env.witness(f"C05/negative-size/not-a-connector-error/{type(e).__name__}", f"step {step} fetchmany({op[1]}): {e}")
                    return
            continue
        elif kind == "many":
            got_l = cur.fetchmany(op[1])
            exp_l = rows[pos:pos + op[1]]
            pos += len(exp_l)
        elif kind == "as_many":
            cur.arraysize = op[1]
            asz = op[1]
            got_l = cur.fetchmany()
            exp_l = rows[pos:pos + op[1]]
            pos += len(exp_l)
        elif kind == "set_as":
            cur.arraysize = op[1]
            asz = op[1]
            continue
        elif kind == "many_default":
            # fetchmany() hands out arraysize rows: the size last *set*, not the size of some earlier fetch call
            env.count("cmp_arraysize")
            if cur.arraysize != asz:
                env.witness("C05/arraysize-changed-by-fetch", f"cursor.arraysize reads {cur.arraysize}, last set to {asz}; script {case['script'][:step + 1]}")
                return
            got_l = cur.fetchmany()
            exp_l = rows[pos:pos + asz]
            pos += len(exp_l)
        elif kind == "all":
            got_l = cur.fetchall()
            exp_l = rows[pos:]
            pos = len(rows)
        else:
            raise ValueError(kind)
        env.count("cmp_handout")
        handed += len(exp_l)
        if not isinstance(got_l, list):
            env.witness(f"C05/handout/not-a-list/{kind}", f"{type(got_l).__name__}")
            return
        # width first (so repeated-name collapse has its own key)
        if got_l and not use_dict:
            env.count("cmp_width")
            w = {len(t) for t in got_l}
            if w != {len(names)}:
                env.witness(f"C05/width/{dup}", f"tuple widths {sorted(w)} expected {len(names)}: {sql} -> {got_l[:2]}")
                return
        if use_dict and got_l:
            env.count("cmp_dict")
            if any(list(d.keys()) != names for d in got_l):
                env.witness("C05/dict-keys", f"keys {list(got_l[0].keys())} expected {names}")
                return
        if got_l != conv(exp_l):
            where = "after-exhaustion" if not exp_l else "rows"
            env.witness(
                f"C05/handout/{where}/{kind}",
                f"step {step} {op}: got {got_l[:3]}.. ({len(got_l)} rows) expected {conv(exp_l)[:3]}.. ({len(exp_l)} rows); {sql}",
            )
            return
    # drain + exhaustion ("for ever" bounded to 3 further calls of each kind)
    rest = cur.fetchall()
    env.count("cmp_handout")
    if rest and not use_dict and {len(t) for t in rest} != {len(names)}:
        env.witness(f"C05/width/{dup}", f"tuple widths {sorted({len(t) for t in rest})} expected {len(names)}: {sql} -> {rest[:2]}")
        return
    if rest != conv(rows[pos:]):
        env.witness("C05/handout/drain", f"drain got {len(rest)} rows expected {len(rows) - pos}; first {rest[:2]}")
        return
    for _ in range(3):
        env.count("cmp_exhaustion")
        a, b, c = cur.fetchone(), cur.fetchmany(2), cur.fetchall()
        if a is not None or b != [] or c != []:
            env.witness("C05/after-exhaustion", f"after exhaustion fetchone={a!r} fetchmany={b!r} fetchall={c!r}")
            return
    if cur.rowcount != (rows[0][0] if pat["kind"] == "dml" else len(rows)):
        env.witness("C05/rowcount", f"rowcount={cur.rowcount} for {sql}")
    if n >= 1 and handed + len(rest) >= 1:
        env.nontrivial((n, pat, use_dict, case["script"]))
