"""C20 patch() and the CLI switch the fake on and off cleanly.

Monitors: identity checks of every patched attribute before/inside/after each scenario
(enumerated target lists x exit modes x nesting x repetition), and an ArgvModel for the
CLI over a bounded, fully enumerated argv grammar."""

from __future__ import annotations

import importlib
import itertools
import json
import os
import sys
import tempfile
import unittest.mock as mock
from typing import Any

from fsverif import core, tap

ID = "C20"
LEVEL = "exploration"
BUDGET = {"quick": 70, "thorough": 600}
EXHAUSTIVE = {"quick": True, "thorough": True}
RULE = (
    "patch scenarios: every ordered list of up to 3 (quick: 2) extra targets from {from-import connect, from-import "
    "write_pandas, target in a not-yet-imported module, standard target repeated, non-existent module, non-existent "
    "attribute, non-snowflake function, aliased from-imports in loaded and not-yet-imported modules} x exit mode {normal, exception in body} x nested entry x repeated entry; CLI: "
    "every argv of the grammar fsopt* target rest* up to 5 tokens (quick: 4) over {-d X, -dX, --db_path X, --db_path=X} x "
    "{-m MOD, -mMOD, --module MOD, --module=MOD, script path} x rest tokens {a, -x, -m, -d, --, --db_path=y}. All cases are "
    "distinct by construction; non-trivial = a patch scenario with at least one extra target or a CLI argv with at least "
    "one fakesnow option or one rest token."
)
REQUIRED = ["cmp_fresh_process", "cmp_after_exit", "cmp_inside", "cmp_engine_closed", "cmp_kept_connection_closed", "cmp_stale_fake_connect", "cmp_nested", "cmp_reentry", "cmp_cli_argv", "cmp_cli_dbpath",
            "setup_failures_seen", "body_exceptions_seen"]
ASSUMPTIONS = [
    "scenarios run inside the worker process; a leaked patch is detected by identity and forcibly undone before the next case",
    "sys.argv[0] seen by a module target may be the module name or its file (runpy alter_sys, as python -m does)",
]

TARGETS_DIR = os.path.join(os.path.dirname(os.path.dirname(os.path.dirname(os.path.abspath(__file__)))), "fsverif_targets")

TOKENS = {
    "A.connect": "fsverif_helper_a.connect",
    "A.write_pandas": "fsverif_helper_a.write_pandas",
    "B.connect": "fsverif_helper_b.connect",
    "C.sf_connect": "fsverif_helper_c.sf_connect",
    "C.sf_write_pandas": "fsverif_helper_c.sf_write_pandas",
    "D.sf_connect": "fsverif_helper_d.sf_connect",
    "STD.connect": "snowflake.connector.connect",
    "NOMOD": "no_such_module_fsverif.connect",
    "NOATTR": "fsverif_helper_a.nothing_here",
    "NOTSF": "fsverif_helper_a.not_snowflake",
}
BAD = {"NOMOD", "NOATTR", "NOTSF"}

FSOPTS = [["-d", "DBP"], ["-dDBP"], ["--db_path", "DBP"], ["--db_path=DBP"]]
TARGET_FORMS = [["-m", "MOD"], ["-mMOD"], ["--module", "MOD"], ["--module=MOD"], ["SCRIPT"]]
REST = ["a", "-x", "-m", "-d", "--", "--db_path=y"]


def gen_cases(tier: str, seed: int):
    maxt = 2 if tier == "quick" else 3
    toks = list(TOKENS)
    lists: list[tuple] = [()]
    for n in range(1, maxt + 1):
        lists += list(itertools.permutations(toks, n))
    for tl in lists:
        for exit_mode in ("normal", "body_exc"):
            for nested in (False, True):
                for repeat in (1, 2):
                    yield {"part": "patch", "targets": list(tl), "exit": exit_mode, "nested": nested, "repeat": repeat,
                           "as_str": len(tl) == 1 and repeat == 2}
    # the same guarantees in a fresh interpreter each, whose import state is that of a user's process
    from fsverif.props import c20_fresh

    for scen in c20_fresh.FRESH:
        for pre in c20_fresh.PRES:
            yield {"part": "fresh", "scenario": scen, "pre": pre}
    maxlen = 4 if tier == "quick" else 5
    for nopts in range(0, 3):
        for opts in itertools.product(range(len(FSOPTS)), repeat=nopts):
            for tf in range(len(TARGET_FORMS)):
                used = sum(len(FSOPTS[o]) for o in opts) + len(TARGET_FORMS[tf])
                for nrest in range(0, max(0, maxlen - used) + 1):
                    for rest in itertools.product(range(len(REST)), repeat=nrest):
                        yield {"part": "cli", "opts": list(opts), "target": tf, "rest": list(rest)}


_state: dict[str, Any] = {}


def setup_worker(env: core.Env) -> None:
    if TARGETS_DIR not in sys.path:
        sys.path.insert(1, TARGETS_DIR)
    import snowflake.connector
    import snowflake.connector.pandas_tools

    import fakesnow
    import fakesnow.cli
    import fsverif_helper_a
    import fsverif_helper_d

    _state.update(
        sc=snowflake.connector,
        pt=snowflake.connector.pandas_tools,
        fakesnow=fakesnow,
        cli=fakesnow.cli,
        A=fsverif_helper_a,
        D=fsverif_helper_d,
        ORIG_CONNECT=snowflake.connector.connect,
        ORIG_WP=snowflake.connector.pandas_tools.write_pandas,
        tmp=tempfile.mkdtemp(prefix="fsverif-c20-"),
    )
    assert fsverif_helper_a.connect is _state["ORIG_CONNECT"]


def teardown_worker(env: core.Env) -> None:
    import shutil

    shutil.rmtree(_state["tmp"], ignore_errors=True)


def _watched() -> list[tuple[str, Any, str, Any]]:
    s = _state
    w = [
        ("std.connect", s["sc"], "connect", s["ORIG_CONNECT"]),
        ("std.write_pandas", s["pt"], "write_pandas", s["ORIG_WP"]),
        ("A.connect", s["A"], "connect", s["ORIG_CONNECT"]),
        ("A.write_pandas", s["A"], "write_pandas", s["ORIG_WP"]),
    ]
    w.append(("D.sf_connect", s["D"], "sf_connect", s["ORIG_CONNECT"]))
    b = sys.modules.get("fsverif_helper_b")
    if b is not None and _state.get("watch_b"):
        # only the listed target: B.write_pandas is bound at import time but never named as a target
        w.append(("B.connect", b, "connect", s["ORIG_CONNECT"]))
    c = sys.modules.get("fsverif_helper_c")
    if c is not None:
        for tok, attr, orig in (("C.sf_connect", "sf_connect", s["ORIG_CONNECT"]), ("C.sf_write_pandas", "sf_write_pandas", s["ORIG_WP"])):
            if tok in _state.get("watch_c", ()):
                w.append((tok, c, attr, orig))
    return w


def _leaks(restore: bool = True) -> list[str]:
    out = []
    for name, mod, attr, orig in _watched():
        if getattr(mod, attr) is not orig:
            out.append(name)
            if restore:
                setattr(mod, attr, orig)
    return out


def run_case(case: dict, env: core.Env) -> None:
    if case["part"] == "fresh":
        from fsverif.props import c20_fresh

        return c20_fresh.run_fresh(case, env, TARGETS_DIR, _state["tmp"])
    if case["part"] == "patch":
        _run_patch(case, env)
    else:
        _run_cli(case, env)


# ---------------------------------------------------------------------------
def _run_patch(case: dict, env: core.Env) -> None:
    s = _state
    fakesnow = s["fakesnow"]
    sys.modules.pop("fsverif_helper_b", None)
    pre = _leaks()
    assert not pre, f"harness: interpreter already patched before the case: {pre}"
    toks = case["targets"]
    _state["watch_b"] = "B.connect" in toks
    _state["watch_c"] = [t for t in toks if t.startswith("C.")]
    sys.modules.pop("fsverif_helper_c", None)
    targets: Any = [TOKENS[t] for t in toks]
    if case.get("as_str") and len(targets) == 1:
        targets = targets[0]
    first_bad = next((t for t in toks if t in BAD), None)
    mode = case["exit"]
    scen = f"{mode}/{'setup-fails-' + first_bad if first_bad else 'setup-ok'}"
    env.cover("patch_scenario", scen + ("/nested" if case["nested"] else ""))

    class BodyError(Exception):
        pass

    for rep in range(case["repeat"]):
        if rep:
            sys.modules.pop("fsverif_helper_b", None) if False else None
        nroots = len(tap.SHIM.roots)
        kept_conn = None
        entered = False
        exc: BaseException | None = None
        try:
            with fakesnow.patch(targets):
                entered = True
                root = tap.SHIM.roots[-1] if len(tap.SHIM.roots) > nroots else None
                # ---- inside: every target is the fake
                env.count("cmp_inside")
                inside = [("std.connect", s["sc"].connect), ("std.write_pandas", s["pt"].write_pandas)]
                if "A.connect" in toks:
                    inside.append(("A.connect", s["A"].connect))
                if "A.write_pandas" in toks:
                    inside.append(("A.write_pandas", s["A"].write_pandas))
                if "B.connect" in toks:
                    inside.append(("B.connect", sys.modules["fsverif_helper_b"].connect))
                if "C.sf_connect" in toks:
                    inside.append(("C.sf_connect", sys.modules["fsverif_helper_c"].sf_connect))
                if "C.sf_write_pandas" in toks:
                    inside.append(("C.sf_write_pandas", sys.modules["fsverif_helper_c"].sf_write_pandas))
                if "D.sf_connect" in toks:
                    inside.append(("D.sf_connect", s["D"].sf_connect))
                for name, fn in inside:
                    if not isinstance(fn, mock.MagicMock):
                        env.witness(f"C20/patch/inside/not-fake/{name}", f"{name} is {fn!r} inside patch({targets})")
                for name, fn in inside:
                    if name.endswith("connect") and isinstance(fn, mock.MagicMock):
                        c = fn(database="db1", schema="s1")
                        if type(c).__name__ != "FakeSnowflakeConnection":
                            env.witness(f"C20/patch/inside/not-fake-connection/{name}", repr(c))
                        elif kept_conn is None:
                            kept_conn = c
                            if c.cursor().execute("select 41 + 1").fetchall() != [(42,)]:
                                env.witness("C20/patch/inside/fake-connection-broken", "select 41+1")
                if case["nested"]:
                    env.count("cmp_nested")
                    try:
                        with fakesnow.patch():
                            env.witness("C20/patch/nested/not-refused", "nested patch() entered")
                    except AssertionError:
                        pass
                    except Exception as e:  # noqa: BLE001
                        env.witness(f"C20/patch/nested/wrong-exception/{type(e).__name__}", str(e))
                    # outer still works
                    if not isinstance(s["sc"].connect, mock.MagicMock):
                        env.witness("C20/patch/nested/outer-unpatched", "after refused nested entry the outer patch is gone")
                    else:
                        c2 = s["sc"].connect(database="db1", schema="s1")
                        try:
                            ok = c2.cursor().execute("select 7").fetchall() == [(7,)]
                        except Exception as e:  # noqa: BLE001
                            ok = False
                            env.witness(f"C20/patch/nested/outer-broken/{type(e).__name__}", str(e)[:200])
                        if not ok:
                            env.witness("C20/patch/nested/outer-broken", "connection of the outer patch unusable after nested attempt")
                if mode == "body_exc":
                    raise BodyError("boom")
        except BodyError as e:
            exc = e
            env.count("body_exceptions_seen")
        except (AssertionError, ImportError) as e:
            exc = e
            if not entered:
                env.count("setup_failures_seen")
        # ---- verdicts on the way out
        if first_bad and entered:
            env.witness(f"C20/patch/setup/bad-target-accepted/{first_bad}", f"patch({targets}) entered")
        if not first_bad and not entered:
            env.witness(f"C20/patch/setup/rejected-good-targets/{type(exc).__name__}", f"patch({targets}): {exc}")
        env.count("cmp_after_exit")
        leaks = _leaks()
        for name in leaks:
            env.witness(
                f"C20/patch/after-exit/not-restored/{name}/{scen}",
                f"after leaving patch({targets}) [{scen}] {name} is still patched",
            )
        if entered:
            env.count("cmp_engine_closed")
            if root is not None and not root._closed:
                env.witness(f"C20/patch/engine-not-closed/{mode}", "tap saw no close() on the instance's engine connection")
            if kept_conn is not None:
                env.count("cmp_kept_connection_closed")
                if not kept_conn.is_closed():
                    env.witness(f"C20/patch/kept-connection-not-closed/{mode}", "is_closed() is False after the block was left")
                # every kind of statement is refused alike, whatever fakesnow does with it before it reaches the engine
                for q in ("select 1", "SET c20_v = 1", "SELECT $c20_never_set", "UNSET c20_v", "ALTER TABLE c20_t SET TAG a = 'b'", "BEGIN", "COMMIT",
                          "USE SCHEMA s1", "CREATE TABLE c20_late (id int)", "SHOW TABLES"):
                    kind = q.split()[0].upper() + ("-" + q.split()[1].upper().lstrip("$").split("_")[0] if q.split()[0].upper() in ("SELECT", "ALTER") else "")
                    try:
                        kept_conn.cursor().execute(q)
                        env.witness(f"C20/patch/kept-connection-usable-after-exit/{mode}" + ("" if q == "select 1" else f"/{kind}"), f"{q!r} succeeded after exit")
                    except core.sferr.DatabaseError as e:
                        if e.errno != 250002 or e.sqlstate != "08003":
                            env.witness("C20/patch/kept-connection-wrong-error" + ("" if q == "select 1" else f"/{kind}"), f"{q!r}: {type(e).__name__} {e.errno}/{e.sqlstate}")
                    except Exception as e:  # noqa: BLE001
                        env.witness(f"C20/patch/kept-connection-wrong-exception/{type(e).__name__}", f"{q!r}: {str(e)[:200]}")
        elif first_bad:
            # setup failed: the instance it created must not stay open either
            if len(tap.SHIM.roots) > nroots and not tap.SHIM.roots[-1]._closed:
                env.count("cmp_engine_closed")
                env.witness(f"C20/patch/engine-not-closed/setup-fails-{first_bad}", "instance created by a failed patch() left open")
        # ---- what was the fake connect inside a block is of no use once the block is left, also when nothing connected inside
        env.count("cmp_stale_fake_connect")
        stale = None
        try:
            with fakesnow.patch():
                stale = s["sc"].connect
        except Exception:  # noqa: BLE001
            stale = None
        if stale is not None and isinstance(stale, mock.MagicMock):
            try:
                c9 = stale(database="db1", schema="s1")
                rows9 = c9.cursor().execute("select 9").fetchall()
                env.witness("C20/patch/fake-connect-of-a-left-block-still-hands-out-working-connections", f"select 9 -> {rows9}")
                try:
                    c9.close()
                except Exception:  # noqa: BLE001
                    pass
            except Exception:  # noqa: BLE001
                pass
        # ---- patch() can be entered again (with the same extra targets when they were accepted) and the fakes work
        env.count("cmp_reentry")
        try:
            with fakesnow.patch(targets if not first_bad else []):
                ok = isinstance(s["sc"].connect, mock.MagicMock)
                if not first_bad:
                    for tk, getter in (("A.connect", lambda: s["A"].connect), ("B.connect", lambda: sys.modules["fsverif_helper_b"].connect),
                                       ("C.sf_connect", lambda: sys.modules["fsverif_helper_c"].sf_connect), ("D.sf_connect", lambda: s["D"].sf_connect)):
                        if tk in toks:
                            try:
                                c3 = getter()(database="db1", schema="s1")
                                if c3.cursor().execute("select 5").fetchall() != [(5,)]:
                                    raise RuntimeError("wrong rows")
                            except Exception as e:  # noqa: BLE001
                                env.witness(f"C20/patch/reentry/target-not-working/{tk}/{scen}", f"second patch({targets}): {type(e).__name__}: {e}"[:300])
            if not ok:
                env.witness(f"C20/patch/reentry/not-patched/{scen}", "re-entered patch() did not patch")
        except Exception as e:  # noqa: BLE001
            env.witness(f"C20/patch/reentry/refused/{scen}", f"{type(e).__name__}: {e}")
        for name in _leaks():
            env.witness(f"C20/patch/after-reentry/not-restored/{name}", "after plain re-entry")
        # ---- and a later patch() without extra targets replaces the standard names only: what an earlier entry was asked
        # to patch (or failed to) is not remembered
        env.count("cmp_reentry")
        try:
            with fakesnow.patch():
                for name, mod, attr, orig in _watched():
                    if not name.startswith("std.") and getattr(mod, attr) is not orig:
                        env.witness(f"C20/patch/plain-entry-patches-earlier-extra-target/{name}", f"after patch({targets}) and its re-entry, patch() replaced {name}")
                if not isinstance(s["sc"].connect, mock.MagicMock):
                    env.witness(f"C20/patch/reentry/not-patched/{scen}", "plain patch() after the case did not patch")
        except Exception as e:  # noqa: BLE001
            env.witness(f"C20/patch/reentry/refused/plain-after-{scen}", f"{type(e).__name__}: {e}")
        for name in _leaks():
            env.witness(f"C20/patch/after-reentry/not-restored/{name}", "after the final plain entry")
    if toks:
        env.nontrivial(case)


# ---------------------------------------------------------------------------
def _argv_model(case: dict, dbp: str, script: str) -> tuple[list[str], str | None, str, list[str]]:
    """(argv given to main, expected db_path, expected argv0 kind, expected rest)."""
    def sub(tok: str) -> str:
        return tok.replace("DBP", dbp).replace("MOD", "fsverif_cli_target").replace("SCRIPT", script)

    argv: list[str] = []
    db = None
    for i, o in enumerate(case["opts"]):
        d = f"{dbp}{i}"
        toks = [t.replace("DBP", d) for t in FSOPTS[o]]
        argv += toks
        db = d
    tf = TARGET_FORMS[case["target"]]
    argv += [sub(t) for t in tf]
    kind = "script" if tf == ["SCRIPT"] else "module"
    rest = [REST[i] for i in case["rest"]]
    argv += rest
    return argv, db, kind, rest


def _run_cli(case: dict, env: core.Env) -> None:
    s = _state
    cli, fakesnow = s["cli"], s["fakesnow"]
    script = os.path.join(TARGETS_DIR, "record_script.py")
    dbp = os.path.join(s["tmp"], "dbp")
    argv, exp_db, kind, rest = _argv_model(case, dbp, script)
    out = os.path.join(s["tmp"], "argv.json")
    if os.path.exists(out):
        os.unlink(out)
    os.environ["FSVERIF_ARGV_OUT"] = out
    seen: dict[str, Any] = {}
    real_patch = fakesnow.patch

    def recording_patch(*a: Any, **k: Any):
        seen["db_path"] = k.get("db_path")
        seen["called"] = True
        return real_patch(*a, **k)

    saved_argv, saved_path = list(sys.argv), list(sys.path)
    fakesnow.patch = recording_patch
    forms = "+".join(["".join(FSOPTS[o]).replace("DBP", "") for o in case["opts"]] + ["".join(TARGET_FORMS[case["target"]])])
    env.cover("cli_forms", forms)
    rc: Any = None
    exc = None
    try:
        rc = cli.main(argv)
    except SystemExit as e:
        exc = f"SystemExit({e.code})"
    except Exception as e:  # noqa: BLE001
        exc = f"{type(e).__name__}: {e}"
    finally:
        fakesnow.patch = real_patch
        sys.argv[:] = saved_argv
        sys.path[:] = saved_path
        sys.modules.pop("fsverif_cli_target", None)
    _state["watch_b"] = False
    for name in _leaks():
        env.witness(f"C20/cli/after-exit/not-restored/{name}", f"argv={argv}")
    feat = []
    if any(len(FSOPTS[o]) == 1 for o in case["opts"]):
        feat.append("attached-db-value")
    if len(TARGET_FORMS[case["target"]]) == 1 and kind == "module":
        feat.append("attached-module-value")
    feats = "+".join(feat) or "separate-values"
    env.count("cmp_cli_argv")
    if exc is not None or rc != 0 or not os.path.exists(out):
        env.witness(f"C20/cli/target-not-run/{kind}/{feats}", f"argv={argv} rc={rc} exc={exc}")
        return
    with open(out) as f:
        rec = json.load(f)
    got = rec["argv"]
    if got[1:] != rest:
        env.witness(f"C20/cli/argv-rest/{kind}/{feats}", f"fakesnow {argv} -> target argv {got}; expected rest {rest}")
    a0_ok = (got[0] == script) if kind == "script" else (
        got[0] == "fsverif_cli_target" or os.path.basename(got[0]) == "fsverif_cli_target.py")
    if not a0_ok:
        env.witness(f"C20/cli/argv0/{kind}/{feats}", f"fakesnow {argv} -> argv[0]={got[0]!r}")
    if rec["name"] != "__main__" or rec["connect_is_mock"] != "MagicMock":
        env.witness(f"C20/cli/target-environment/{kind}", f"{rec}")
    env.count("cmp_cli_dbpath")
    if seen.get("db_path") != exp_db:
        env.witness(f"C20/cli/db_path/{feats}", f"fakesnow {argv}: patch(db_path={seen.get('db_path')!r}) expected {exp_db!r}")
    if case["opts"] or case["rest"]:
        env.nontrivial(case)
