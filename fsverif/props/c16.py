"""C16 execute_string equals one-by-one execution; nop_regexes only no-op matches.

Monitor: differential twin instances (execute_string(text) vs execute() per statement) with
pairwise outcome, final snapshot and session-state comparison; nop_regexes twin with/without
the option."""

from __future__ import annotations

import random
import zlib
import re
from typing import Any

from fsverif import core

ID = "C16"
LEVEL = "exploration"
BUDGET = {"quick": 70, "thorough": 600}
RULE = (
    "execute_string cases: a list of 1-8 statements with known boundaries (DDL, DML, queries, SET/$var, USE, dollar-quoted "
    "strings, optionally one failing statement) whose string literals are generated (unicode, quotes, backslashes, ; -- /* */ "
    "$ %), rendered into one text with comments, blank statements and whitespace; nop cases: (pattern set, statement, params) "
    "on twin instances with/without nop_regexes. Non-trivial = at least 2 statements and one literal containing a character "
    "from ;'\\-/*$ or non-ASCII (execute_string), or a statement that matches a pattern (nop); distinct = distinct cases."
)
REQUIRED = ["cmp_cursor_count", "cmp_outcome", "cmp_snapshot", "cmp_failing_prefix", "cmp_nop_match", "cmp_nop_nonmatch", "cmp_cursor_class"]
ASSUMPTIONS = [
    "string literals are written with doubled quotes and doubled backslashes (Snowflake escapes)",
    "statement texts themselves contain no top-level semicolon; boundaries are the generator's",
]

LITS = ["plain", "", "it's", "a;b", "x -- y", "/* c */", "semi; -- both", "back\\slash", "ends\\", "two\\\\", "q''q", "$v", "$$", "a$b", "100%",
        "%s", "héllo", "✓ ok", "日本", "🎉", "line\nbreak", "tab\there", "\"dq\"", "a'b;c--d/*e*/f", " ", "select 1; select 2", "NULL", "';",
        "cr\rlf", "crlf\r\nend", "formfeed\x0cx", "vt\x0bx", "nel\u0085x", "ls\u2028x", "ps\u2029x", "fs\x1cx", "trailing cr\r", "\r\n"]


def qlit(v: str) -> str:
    return "'" + v.replace("\\", "\\\\").replace("'", "''") + "'"


def _lit(r: random.Random) -> str:
    if r.random() < 0.75:
        return r.choice(LITS)
    return "".join(r.choice("ab;'\\-/*$% \né✓") for _ in range(r.randint(1, 10)))


def gen_cases(tier: str, seed: int):
    r = random.Random(f"{seed}:C16")
    n = 1500 if tier == "quick" else 25000
    for i in range(n):
        if i % 3 == 2:
            yield _gen_nop(r)
            continue
        stmts = ["CREATE TABLE T1 (ID INT, S VARCHAR)"]
        nid = 0
        fail_at = None
        for j in range(r.randint(0, 7)):
            x = r.random()
            if x < 0.3:
                nid += 1
                stmts.append(f"INSERT INTO T1 VALUES ({nid}, {qlit(_lit(r))})")
            elif x < 0.4:
                nid += 2
                stmts.append(f"INSERT INTO T1 (ID, S) VALUES ({nid - 1}, {qlit(_lit(r))}), ({nid}, {qlit(_lit(r))})")
            elif x < 0.5:
                stmts.append(f"SELECT {qlit(_lit(r))} AS X, {r.randint(0, 9)} AS N")
            elif x < 0.58:
                stmts.append(f"UPDATE T1 SET S = {qlit(_lit(r))} WHERE ID = {r.randint(0, max(nid, 1))}")
            elif x < 0.63:
                stmts.append(f"DELETE FROM T1 WHERE S = {qlit(_lit(r))}")
            elif x < 0.7:
                stmts.append("SELECT ID, S FROM T1 ORDER BY ID")
            elif x < 0.72:
                # variables that had a value before the script: read, changed and read again, or unset
                y = r.random()
                if y < 0.35:
                    stmts.append("SELECT $myvar AS BEFORE, $batch AS B")
                elif y < 0.7:
                    stmts.append("SET batch = $batch + 1")
                    stmts.append(f"INSERT INTO T1 VALUES ($batch, {qlit(_lit(r))})")
                elif fail_at is None:
                    stmts.append("UNSET gone")
                    fail_at = len(stmts)
                    stmts.append("SELECT $gone AS G")
            elif x < 0.76:
                stmts.append(f"SET myvar = {qlit(_lit(r))}")
                stmts.append("SELECT $myvar AS V")
            elif x < 0.8:
                body = r.choice(["plain", "a;b", "it's", "x -- y", "two\nlines", "/* c */"])
                stmts.append(f"SELECT $${body}$$ AS D")
            elif x < 0.85:
                stmts.append(f"CREATE SCHEMA SC{j}")
                stmts.append(f"USE SCHEMA SC{j}")
                stmts.append("CREATE TABLE T1 (ID INT, S VARCHAR)")
            elif x < 0.9:
                stmts.append(f"CREATE VIEW V{j} AS SELECT ID, S || {qlit(_lit(r))} AS S2 FROM T1")
            elif x < 0.95 and fail_at is None:
                fail_at = len(stmts)
                stmts.append(r.choice(["SELECT * FROM no_such_table", "INSERT INTO T1 VALUES (1, 'a', 'extra')", "SELECT nocol FROM T1",
                                       *SYNTAX_ERRORS]))
            else:
                stmts.append(r.choice(["BEGIN", "COMMIT", "SELECT COUNT(*) FROM T1"]))
        # rendering plan: separators and decorations
        deco = []
        for _ in stmts:
            deco.append({
                "pre": r.choice(["", "", " ", "\n", "\n  ", "-- leading comment\n", "/* block */ ", "\n\n"]),
                "post": r.choice(["", "", " ", "\n", " -- trailing comment", " /* trailing block */"]),
                "sep": r.choice([";", ";", ";\n", " ;", ";;", "; ;", ";\n-- only a comment\n;", ";\n/* only a block comment */"]),
            })
        yield {"kind": "es", "stmts": stmts, "deco": deco, "final_semicolon": r.random() < 0.7,
               "dict": r.random() < 0.25, "return_cursors": r.random() > 0.1, "fail_at": fail_at}


PATTERNS = [r"^CALL\b", r"^CREATE\s+STAGE", r"^PUT\s", r"^ALTER\s+SESSION", r"^GRANT\b.*", r"^TRUNCATE", r"^INSERT\s+INTO\s+AUDIT", r"^select 'nop", r"^COPY INTO",
            # unanchored patterns still only match at the start of the statement
            r"CALL", r"GRANT\s", r"STAGE", r"AUDIT", r"delete", r"T1", r"(?:PUT|GET)\s",
            # patterns with groups of their own: a backreference counts within its own pattern
            r"^(CALL|PUT)\b", r"COMMENT ON TABLE (\w+) IS '\1_BAK'", r"^(RE)?GRANT\b", r"SELECT (['\"])nop\1"]
NOP_STMTS = [
    "CALL my_proc(1)", "call my_proc('x')", "CREATE STAGE s1", "create   stage s2 url='s3://x'", "PUT file:///tmp/x @s1", "ALTER SESSION SET X = 1",
    "GRANT ALL ON T1 TO ROLE r", "TRUNCATE TABLE T1", "truncate table T1", "INSERT INTO AUDIT VALUES (1)", "INSERT INTO T1 VALUES (5, 'five')",
    "insert into audit values (2)", "SELECT 'nop' AS X", "select 'nope'", "SELECT ID FROM T1 ORDER BY ID", " CALL leading_space()", "SELECT 1 -- CALL x",
    "DELETE FROM T1 WHERE ID = 1", "UPDATE T1 SET S = 'CALL' WHERE ID = 1", "COPY INTO T1 FROM @s1", "CREATE TABLE STAGE_T (ID INT)", "SELECT 'GRANT' AS X",
    "DROP TABLE T1", "INSERT INTO T1 VALUES (%s, %s)", "INSERT INTO AUDIT VALUES (%s)",
    "SELECT 'please call me' AS X", "SELECT ID AS recall FROM T1 ORDER BY ID", "  call spaced()", "SELECT 'GRANT x' AS G", "INSERT INTO T1 VALUES (9, 'STAGE')",
    "COMMENT ON TABLE T1 IS 'T1_BAK'", "comment on table audit is 'audit_BAK'", "COMMENT ON TABLE T1 IS 'T2_BAK'", "SELECT 'nop' AS Q", "UPDATE T1 SET S = 'AUDIT' WHERE ID = 2", "COMMENT ON TABLE T1 IS 'CALL me'", "ALTER TABLE T1 SET COMMENT = 'GRANT'", "CALL after_comment()", "SELECT COUNT(*) FROM T1", "GRANT SELECT ON T1 TO ROLE r", "delete from T1 where id = 2", "SELECT 'delete' AS D",
]


SYNTAX_ERRORS = ["SELEC 1", "SELECT 1 +", "INSERT INTO T1 VALUES (1,", "SELECT FROM WHERE", "UPDATE T1 SET S = 'typo' WHER ID = 1", "DELETE FROM T1 WHER ID = 1",
                 "DROP TABLE T1 oops", "DELETE FROM T1 WHERE (ID = 1"]


def _gen_nop(r: random.Random) -> dict:
    if r.random() < 0.15:
        # a pattern with a group first, then one with a backreference, and statements for both
        pats = [r.choice([r"^(CALL|PUT)\b", r"^(RE)?GRANT\b"]), r"COMMENT ON TABLE (\w+) IS '\1_BAK'"] + r.sample(PATTERNS, r.randint(0, 2))
        return {"kind": "nop", "patterns": pats, "stmts": ["COMMENT ON TABLE T1 IS 'T1_BAK'", r.choice(NOP_STMTS), "COMMENT ON TABLE T1 IS 'T2_BAK'", "comment on table audit is 'audit_BAK'", "CALL p()"], "qmark": False}
    pats = r.sample(PATTERNS, r.randint(1, 4))
    return {"kind": "nop", "patterns": pats, "stmts": [r.choice(NOP_STMTS) for _ in range(r.randint(1, 4))], "qmark": r.random() < 0.3}


def render(case: dict) -> str:
    parts = []
    n = len(case["stmts"])
    for i, (s, d) in enumerate(zip(case["stmts"], case["deco"])):
        parts.append(d["pre"] + s + d["post"])
        if i < n - 1:
            parts.append(d["sep"] if not d["post"].startswith(" --") else "\n" + d["sep"])
    text = "".join(parts)
    if case["final_semicolon"]:
        text += "\n;" if case["deco"][-1]["post"].startswith(" --") else ";"
    return text


def _outcome(cur: Any) -> dict:
    o: dict[str, Any] = {"rowcount": cur.rowcount, "sqlstate": cur.sqlstate}
    try:
        o["rows"] = cur.fetchall()
    except Exception as e:  # noqa: BLE001
        o["rows"] = f"fetch failed: {type(e).__name__}"
    d = core.read_description(cur)
    o["desc"] = d.get("names") if d["ok"] else f"description failed: {d['exc']['cls']}"
    return o


def setup_worker(env: core.Env) -> None:
    pass


def run_case(case: dict, env: core.Env) -> None:
    if case["kind"] == "nop":
        return _run_nop(case, env)
    fa, fb = core.new_fs(), core.new_fs()
    try:
        _run_es(case, env, fa, fb)
    finally:
        fa.duck_conn.close()
        fb.duck_conn.close()


def _lit_features(stmts: list) -> bool:
    return any(re.search(r"'[^']*[;\\\-/*$][^']*'", s) or not s.isascii() for s in stmts)


def _run_es(case: dict, env: core.Env, fa: Any, fb: Any) -> None:
    ca, cb = fa.connect("db1", "s1"), fb.connect("db1", "s1")
    # session state from before the script: variables the script may set again, unset, or only read
    for c_ in (ca, cb):
        k_ = c_.cursor()
        k_.execute("SET myvar = 'from before the script'")
        k_.execute("SET batch = 41")
        k_.execute("SET gone = 'will be unset'")
    text = render(case)
    cls = core.DictCursor if case["dict"] else snowflake_cursor()
    fail_at = case["fail_at"]
    # --- twin B: one by one
    b_out, b_exc = [], None
    for i, s in enumerate(case["stmts"]):
        cur = cb.cursor(cls)
        try:
            cur.execute(s)
        except Exception as e:  # noqa: BLE001
            b_exc = (i, core.exc_info(e))
            break
        b_out.append(_outcome(cur))
    if b_exc is None and fail_at is not None:
        env.count("generator_fail_did_not_fail")
    if b_exc is not None and fail_at is None:
        # one-by-one execution itself rejects a statement we expected to work: not a C16 matter, skip (counted)
        env.count("twin_rejected")
        env.cover("twin_rejected", b_exc[1]["cls"])
        return
    # --- A: execute_string
    pre_a = core.snapshot(fa)
    a_exc = None
    cursors: Any = None
    try:
        # remove_comments says what happens to comments, and to comments only: what the statements do stays the same
        rc_arg = case.get("remove_comments")
        if rc_arg is None:
            rc_arg = [None, True, False][zlib.crc32(text.encode("utf-8", "replace")) % 3]
        env.cover("remove_comments", str(rc_arg))
        kw = {} if rc_arg is None else {"remove_comments": rc_arg}
        cursors = ca.execute_string(text, cursor_class=cls, return_cursors=case["return_cursors"], **kw)
    except Exception as e:  # noqa: BLE001
        a_exc = core.exc_info(e)
    tag = "with-failing-stmt" if fail_at is not None else "all-ok"
    if fail_at is not None and case["stmts"][fail_at] in SYNTAX_ERRORS:
        tag = "with-syntax-error"  # the failing statement does not even parse
    if b_exc is not None:
        env.count("cmp_failing_prefix")
        if a_exc is None:
            env.witness("C16/failing-statement/execute_string-did-not-raise", f"{text!r}: one-by-one raised {b_exc}")
            return
        if (a_exc["cls"], a_exc.get("errno"), a_exc.get("sqlstate")) != (b_exc[1]["cls"], b_exc[1].get("errno"), b_exc[1].get("sqlstate")):
            env.witness("C16/failing-statement/different-exception" + ("/syntax-error" if tag == "with-syntax-error" else ""), f"{text!r}: {a_exc} vs one-by-one {b_exc[1]}")
            return
    elif a_exc is not None:
        env.witness(f"C16/execute_string-raised/{a_exc['cls']}", f"{text!r}: {a_exc}; one-by-one succeeded"[:900])
        return
    else:
        env.count("cmp_cursor_count")
        cursors = list(cursors)
        if not case["return_cursors"]:
            if cursors != []:
                env.witness("C16/return_cursors-false-ignored", f"{len(cursors)} cursors returned")
        elif len(cursors) != len(case["stmts"]):
            env.witness("C16/cursor-count", f"{text!r}: {len(cursors)} cursors for {len(case['stmts'])} statements")
            return
        else:
            for i, (cur, bo) in enumerate(zip(cursors, b_out)):
                env.count("cmp_outcome")
                ao = _outcome(cur)
                if ao != bo:
                    kind = case["stmts"][i].split()[0].upper()
                    field = next(k for k in ao if ao[k] != bo[k])
                    env.witness(f"C16/outcome-differs/{kind}/{field}", f"stmt {i} {case['stmts'][i]!r} in {text!r}: execute_string {ao} vs one-by-one {bo}"[:1200])
                    return
            env.count("cmp_cursor_class")
            if cursors and case["dict"] and b_out and isinstance(b_out[0]["rows"], list) and b_out[0]["rows"]:
                if not isinstance(b_out[0]["rows"][0], dict):
                    env.witness("C16/cursor_class-ignored", "DictCursor requested, tuple rows returned")
    # --- final state equal (whether or not a statement failed)
    env.count("cmp_snapshot")
    sa, sb = core.snapshot(fa), core.snapshot(fb)
    if sa != sb:
        how = ""
        if tag == "with-syntax-error":
            # told apart: the script was refused as a whole (nothing applied, the known up-front parse) from anything else
            how = "/nothing-applied" if (sa == pre_a and a_exc is not None and a_exc["cls"] == "ParseError") else "/something-else-applied"
        env.witness(f"C16/final-state-differs/{tag}{how}", f"{text!r}: {core.snap_diff(sb, sa)}"[:1200])
        return
    ssa, ssb = _session_view(ca), _session_view(cb)
    if ssa != ssb:
        env.witness(f"C16/session-state-differs/{tag}", f"{text!r}: {ssa} vs {ssb}")
        return
    if len(case["stmts"]) >= 2 and _lit_features(case["stmts"]):
        env.nontrivial(case)


def _session_view(conn: Any) -> dict:
    """Session state with variables compared by the value they stand for (their stored text may carry a comment)."""
    st = core.session_state(conn)
    vals = {}
    for name in sorted(st["variables"]):
        o = core.run_stmt(conn.cursor(), f"SELECT ${name}")
        vals[name] = o.get("rows") if o["ok"] else o["exc"]["cls"]
    st["variables"] = vals
    return st


def snowflake_cursor() -> Any:
    from snowflake.connector.cursor import SnowflakeCursor

    return SnowflakeCursor


def _run_nop(case: dict, env: core.Env) -> None:
    pats = case["patterns"]
    fa, fb = core.new_fs(nop_regexes=pats), core.new_fs()
    qmark = bool(case.get("qmark"))  # the same with server-side (qmark) binding: a no-op'd statement has nothing to bind to
    try:
        kw = {"paramstyle": "qmark"} if qmark else {}
        ca, cb = fa.connect("db1", "s1", **kw), fb.connect("db1", "s1", **kw)
        for c in (ca, cb):
            cur = c.cursor()
            cur.execute("CREATE TABLE T1 (ID INT, S VARCHAR)")
            cur.execute("INSERT INTO T1 VALUES (1, 'one'), (2, 'two')")
            cur.execute("CREATE TABLE AUDIT (ID INT)")
            # a table whose recorded comment has a history: a no-op'd statement must not bring an old one back
            cur.execute("CREATE TABLE ORDERS_C (ID INT, S VARCHAR(9)) COMMENT = 'v1'")
            cur.execute("COMMENT ON TABLE ORDERS_C IS 'v2 - deprecated'")
            cur.execute("ALTER TABLE ORDERS_C SET COMMENT = 'v2b'")
            cur.execute("CREATE OR REPLACE TABLE ORDERS_C (ID INT, S VARCHAR(5)) COMMENT = 'v3 of orders'")
        matched_any = False
        reuse: Any = None
        for s in case["stmts"]:
            params = None
            if "%s" in s:
                params = (7, "seven") if s.count("%s") == 2 else (7,)
            effective = s % tuple(repr(p) if isinstance(p, str) else p for p in params) if params else s
            if qmark and params:
                s = effective = s.replace("%s", "?")
            matches = any(re.match(p, effective, re.IGNORECASE) for p in pats)
            # odd cases keep using one cursor per twin (whose earlier results were fetched), even cases a new one per statement
            if len(case["stmts"]) % 2 and reuse:
                cura, curb = reuse
            else:
                cura, curb = ca.cursor(), cb.cursor()
            reuse = (cura, curb)
            if matches:
                matched_any = True
                env.count("cmp_nop_match")
                before = (core.snapshot(fa), core.session_state(ca))
                oa = core.run_stmt(cura, s, params)
                if not oa["ok"] or oa["rows"] != [("Statement executed successfully.",)]:
                    env.witness("C16/nop/match-not-success-status", f"{s!r} with {pats}: {oa.get('exc') or oa.get('rows')}")
                    return
                after = (core.snapshot(fa), core.session_state(ca))
                if after != before:
                    env.witness("C16/nop/match-had-effect", f"{s!r} with {pats}: {core.snap_diff(before[0], after[0])}")
                    return
            else:
                env.count("cmp_nop_nonmatch")
                oa = core.run_stmt(cura, s, params)
                ob = core.run_stmt(curb, s, params)
                ka = (oa["ok"], oa.get("rows"), oa.get("rowcount"), (oa.get("exc") or {}).get("cls"), (oa.get("exc") or {}).get("errno"))
                kb = (ob["ok"], ob.get("rows"), ob.get("rowcount"), (ob.get("exc") or {}).get("cls"), (ob.get("exc") or {}).get("errno"))
                if ka != kb:
                    env.witness("C16/nop/nonmatch-behaves-differently", f"{s!r} with {pats}: {ka} vs without option {kb}")
                    return
                # keep the twins aligned: the statement ran on both
        # bystander: everything not no-op'd had the same effect on both, except what the no-ops skipped on A.
        if matched_any:
            env.nontrivial(case)
    finally:
        fa.duck_conn.close()
        fb.duck_conn.close()
