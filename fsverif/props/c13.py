"""C13 Transactions are atomic, isolated between connections, and sticky to theirs.

Monitor: TxnModel (committed state + per-connection pending writes) checked after every
step of enumerated statement-level interleavings driven from one thread."""

from __future__ import annotations

import itertools
import random
from collections import Counter
from typing import Any

from fsverif import core

ID = "C13"
LEVEL = "exploration"
BUDGET = {"quick": 70, "thorough": 600}
RULE = (
    "case = (k transactional scripts for k connections, one statement-level interleaving); for 2 scripts of up to 4+4 "
    "statements every interleaving is enumerated, 3-connection and longer ones are sampled. After every step each "
    "connection's view of every table (through a randomly chosen cursor of it) and the committed view (raw engine cursor) "
    "are compared with the model. Non-trivial = the interleaving contains a BEGIN with a write inside it and a later "
    "COMMIT/ROLLBACK while another connection takes a step in between; distinct = (scripts, order)."
)
REQUIRED = ["cmp_own_view", "cmp_committed", "cmp_other_view_during_txn", "cmp_noop_status", "commits_in_txn", "rollbacks_in_txn"]
ASSUMPTIONS = [
    "writes are non-conflicting (own table per connection; the shared table is insert-only)",
    "a connection inside a transaction may or may not see rows others committed after its BEGIN (Snowflake read-committed "
    "vs engine snapshot): only lower/upper bounds are asserted for the shared table there",
    "the failing statement inside a transaction is a bind-time failure (missing table)",
]

OPS = ["begin", "ins_own", "ins_sh", "upd_own", "del_own", "fail", "commit", "rollback", "sel"]


def _gen_script(r: random.Random, maxlen: int) -> list:
    n = r.randint(2, maxlen)
    s: list = []
    in_txn = False
    for i in range(n):
        x = r.random()
        if not in_txn and x < 0.4 and i < n - 1:
            s.append(["begin", 0])
            in_txn = True
            continue
        if in_txn and (x < 0.3 or i == n - 1):
            s.append([r.choice(["commit", "rollback"]), r.randint(0, 1), r.choice(["sql", "api"])])
            in_txn = False
            continue
        if not in_txn and x > 0.9:
            s.append([r.choice(["commit", "rollback"]), r.randint(0, 1), r.choice(["sql", "api"])])
            continue
        s.append([r.choice(["ins_own", "ins_own", "ins_sh", "ins_sh", "upd_own", "del_own", "fail", "sel", "merge_own", "wp_own", "with_block", "with_block_exc", "execmany_own", "execmany_fail", "execmany_runtime_fail", "script_fail"]), r.randint(0, 1)])
    return s


def _interleavings(lens: list[int]):
    """All merges of sequences with the given lengths, as lists of connection indexes."""
    total = sum(lens)

    def rec(rem: tuple, acc: list):
        if len(acc) == total:
            yield list(acc)
            return
        for i, x in enumerate(rem):
            if x:
                acc.append(i)
                yield from rec(rem[:i] + (x - 1,) + rem[i + 1:], acc)
                acc.pop()

    yield from rec(tuple(lens), [])


def gen_cases(tier: str, seed: int):
    r = random.Random(f"{seed}:C13")
    # fixed single-session shapes: a second transaction after COMMIT / ROLLBACK is a transaction of its own; a failing
    # statement does not end the open transaction
    for end1 in ("commit", "rollback"):
        for end2 in ("commit", "rollback"):
            for how in ("sql", "api"):
                s0 = [["begin", 0], ["ins_own", 0], [end1, 0, how], ["begin", 1], ["ins_own", 1], ["upd_own", 0], [end2, 1, how], ["sel", 0]]
                yield {"scripts": [s0, [["sel", 0]]], "order": [0] * len(s0) + [1]}
                yield {"scripts": [s0, [["sel", 0]]], "order": [0] * len(s0) + [1], "threaded": True}
                yield {"scripts": [s0, [["sel", 0]]], "order": [0] * len(s0) + [1], "commented": True}
            s1 = [["begin", 0], ["ins_own", 0], ["fail", 1], ["ins_sh", 0], [end1, 0, "sql"], ["sel", 1], ["begin", 0], ["fail", 0], [end2, 1, "api"]]
            yield {"scripts": [s1, [["sel", 0], ["ins_sh", 0]]], "order": [0] * 5 + [1] + [0] * 4 + [1]}
    for variant in ("begin_insert_close", "begin_insert_commit_close", "begin_close"):
        yield {"kind": "close_in_txn", "variant": variant}
    for failing in ("conversion", "constraint", "division"):
        for end in ("commit", "rollback"):
            yield {"kind": "runtime_failure_in_txn", "failing": failing, "end": end}
    sx = [["ins_own", 0], ["execmany_fail", 0], ["ins_own", 1], ["execmany_own", 0], ["rollback", 0, "sql"], ["sel", 0], ["begin", 0], ["execmany_own", 1], ["execmany_fail", 0],
          ["ins_own", 0], ["commit", 1, "api"]]
    yield {"scripts": [sx, [["sel", 0], ["ins_sh", 0]]], "order": [0] * 6 + [1] + [0] * 5 + [1]}
    for first in ("execmany_runtime_fail", "script_fail"):
        for c in (0, 1):
            sy = [["ins_own", 0], [first, c], ["ins_own", 1], ["rollback", 0, "sql"], ["sel", 0], ["begin", 0], ["ins_own", 0], [first, c], ["ins_own", 1],
                  ["rollback", 1, "api"], ["begin", 0], ["upd_own", 0], [first, c], ["ins_own", 0], ["commit", 0, "sql"]]
            yield {"scripts": [sy, [["sel", 0], ["ins_sh", 0], ["sel", 0]]], "order": [0] * 5 + [1] + [0] * 6 + [1] + [0] * 4 + [1]}
    npairs = 40 if tier == "quick" else 1200
    for _ in range(npairs):
        scripts = [_gen_script(r, 4), _gen_script(r, 4)]
        for order in _interleavings([len(s) for s in scripts]):
            yield {"scripts": scripts, "order": order, "nodb": len(order) % 3 == 0}
    nsamp = 150 if tier == "quick" else 6000
    for _ in range(nsamp):
        k = r.choice([2, 3, 3])
        scripts = [_gen_script(r, 7) for _ in range(k)]
        order = [i for i, s in enumerate(scripts) for _ in s]
        r.shuffle(order)
        yield {"scripts": scripts, "order": order, "threaded": r.random() < 0.35, "commented": r.random() < 0.25}


_state: dict[str, Any] = {}


def setup_worker(env: core.Env) -> None:
    fs = core.new_fs()
    # the three sessions are opened in the three documented ways of asking for the default, autocommit on
    conns = [fs.connect("db1", "s1"), fs.connect("db1", "s1", autocommit=None), fs.connect("db1", "s1", autocommit=True)]
    curs = [[c.cursor(), c.cursor(core.DictCursor) if False else c.cursor()] for c in conns]
    nodb_conns = [fs.connect() for _ in range(3)]
    nodb_curs = [[c.cursor(), c.cursor()] for c in nodb_conns]
    _state.update(fs=fs, conns=conns, curs=curs, raw=core.raw_root(fs).cursor(), uid=itertools.count(1), nodb_conns=nodb_conns, nodb_curs=nodb_curs)


def _in_thread(fn: Any) -> Any:
    import threading

    box: list = []
    th = threading.Thread(target=lambda: box.append(fn()))
    th.start()
    th.join(60)
    if not box:
        raise core.Inconclusive("helper thread did not finish")
    return box[0]


def _apply(table: Counter, op: tuple) -> Counter:
    kind = op[0]
    t = Counter(table)
    if kind == "ins":
        t[op[1]] += 1
    elif kind == "upd":
        t = Counter({(i, v + 1): n for (i, v), n in t.items()})
    elif kind == "del":
        t = Counter({(i, v): n for (i, v), n in t.items() if i % 2 != 0})
    elif kind == "merge":
        # MERGE ... USING (id = op[1], v = 500) : update v of the matching row(s) or insert (id, 500)
        if any(i == op[1] for (i, _v) in t):
            t = Counter({((i, 500) if i == op[1] else (i, v)): n for (i, v), n in t.items()})
            # rows that collapse onto the same (id, 500) keep their multiplicity
        else:
            t[(op[1], 500)] += 1
    return t


def _close_in_txn(case: dict, env: core.Env) -> None:
    """A connection closed inside a transaction takes its uncommitted work with it; a connection made afterwards is a new
    session, outside any transaction."""
    fs = core.new_fs()
    try:
        a, b = fs.connect("db1", "s1"), fs.connect("db1", "s1")
        ka, kb = a.cursor(), b.cursor()
        ka.execute("CREATE TABLE CT (ID INT)")
        ka.execute("INSERT INTO CT VALUES (1)")
        v = case["variant"]
        ka.execute("BEGIN")
        want = [(1,)]
        if v != "begin_close":
            ka.execute("INSERT INTO CT VALUES (2)")
        if v == "begin_insert_commit_close":
            ka.execute("COMMIT")
            want = [(1,), (2,)]
        a.close()
        env.count("cmp_committed_view")
        got = sorted(kb.execute("SELECT ID FROM CT").fetchall())
        if got != want:
            env.witness(f"C13/close-in-transaction/{v}/other-session-view", f"after close: another session reads {got} expected {want}")
        c = fs.connect("db1", "s1")
        kc = c.cursor()
        got_c = sorted(kc.execute("SELECT ID FROM CT").fetchall())
        if got_c != want:
            env.witness(f"C13/close-in-transaction/{v}/new-session-sees-abandoned-work", f"a session connected after the close reads {got_c} expected {want}")
        # the new session is in autocommit: its insert is visible to others at once, and its ROLLBACK is a no-op
        kc.execute("INSERT INTO CT VALUES (9)")
        got = sorted(kb.execute("SELECT ID FROM CT").fetchall())
        if got != want + [(9,)]:
            env.witness(f"C13/close-in-transaction/{v}/new-session-not-in-autocommit", f"other session reads {got} expected {want + [(9,)]}")
        o = core.run_stmt(kc, "ROLLBACK")
        got = sorted(kb.execute("SELECT ID FROM CT").fetchall())
        if not o["ok"] or got != want + [(9,)]:
            env.witness(f"C13/close-in-transaction/{v}/rollback-of-new-session-undid-something", f"{o.get('exc')}; table {got} expected {want + [(9,)]}")
        o = core.run_stmt(kc, "BEGIN")
        if not o["ok"]:
            env.witness(f"C13/close-in-transaction/{v}/begin-rejected-in-new-session", str(o["exc"])[:200])
        else:
            kc.execute("ROLLBACK")
        env.nontrivial(("close_in_txn", v))
    finally:
        fs.duck_conn.close()


def _runtime_failure_in_txn(case: dict, env: core.Env) -> None:
    """A statement that fails at run time (not at bind time) inside a transaction fails alone: the transaction goes on, and
    COMMIT publishes the statements that succeeded."""
    fs = core.new_fs()
    try:
        a, b = fs.connect("db1", "s1"), fs.connect("db1", "s1")
        ka, kb = a.cursor(), b.cursor()
        ka.execute("CREATE TABLE RT (ID INT PRIMARY KEY, V INT)")
        ka.execute("INSERT INTO RT VALUES (1, 10)")
        ka.execute("BEGIN")
        ka.execute("INSERT INTO RT VALUES (2, 20)")
        bad = {"conversion": "SELECT 'a'::INT", "constraint": "INSERT INTO RT VALUES (1, 99)", "division": "SELECT 1 / (V - 10) FROM RT WHERE ID = 1"}[case["failing"]]
        o = core.run_stmt(ka, bad)
        if o["ok"]:
            return  # the statement did not fail here: nothing to examine
        env.count("cmp_session_view")
        o2 = core.run_stmt(ka, "INSERT INTO RT VALUES (3, 30)")
        if not o2["ok"]:
            env.witness("C13/runtime-failure-in-transaction/later-statement-rejected", f"after {bad!r} failed, the next statement of the transaction: {o2['exc']['cls']}: {o2['exc']['msg'][:120]}")
        end = case["end"]
        o3 = core.run_stmt(ka, end.upper())
        env.count("cmp_committed_view")
        got = sorted(kb.execute("SELECT ID FROM RT").fetchall())
        want = [(1,), (2,), (3,)] if end == "commit" else [(1,)]
        if not o3["ok"]:
            env.witness(f"C13/runtime-failure-in-transaction/{end}-rejected", str(o3["exc"])[:200])
        elif got != want and end == "commit":
            told = "ok" if o2["ok"] else "rejected"
            env.witness("C13/runtime-failure-in-transaction/commit-reports-success-but-work-is-gone",
                        f"BEGIN; INSERT 2; {bad} (fails); INSERT 3 ({told}); COMMIT -> {o3['rows']}; another session reads {got}, expected at least the rows that succeeded")
        elif got != want:
            env.witness("C13/runtime-failure-in-transaction/rollback-left-trace", f"{got}")
        env.nontrivial(("runtime_failure_in_txn", case["failing"], end))
    finally:
        fs.duck_conn.close()


def run_case(case: dict, env: core.Env) -> None:
    if case.get("kind") == "close_in_txn":
        return _close_in_txn(case, env)
    if case.get("kind") == "runtime_failure_in_txn":
        return _runtime_failure_in_txn(case, env)
    conns, curs, raw = _state["conns"], _state["curs"], _state["raw"]
    scripts, order = case["scripts"], case["order"]
    k = len(scripts)
    r = random.Random(repr(case))
    setup = curs[0][0]
    # make sure no transaction is left open from a previous case
    for i in range(3):
        core.raw_of(conns[i]).execute("ROLLBACK") if False else None
        try:
            conns[i].rollback()
        except Exception:  # noqa: BLE001
            pass
    tables = [f"T{i}" for i in range(k)] + ["SH"]
    nodb = bool(case.get("nodb"))
    P = "DB1.S1." if nodb else ""
    if nodb:
        conns, curs = _state["nodb_conns"], _state["nodb_curs"]
        for i in range(3):
            try:
                conns[i].rollback()
            except Exception:  # noqa: BLE001
                pass
    for t in tables:
        setup.execute(f"CREATE OR REPLACE TABLE {t} (ID INT, V INT)")
    seed_rows = {}
    for t in tables:
        rows = [(next(_state["uid"]), j) for j in range(2)]
        setup.execute(f"INSERT INTO {t} VALUES " + ", ".join(f"({a}, {b})" for a, b in rows))
        seed_rows[t] = Counter(rows)

    committed: dict[str, Counter] = dict(seed_rows)
    txn: list[dict | None] = [None] * k  # {"snap": {...}, "ops": [(table, op)]}
    pos = [0] * k
    saw_txn_write = [False] * k
    interesting = False
    other_step_in_txn = [False] * k

    def view(ci: int, t: str) -> list[Counter]:
        """Acceptable contents of table t as seen by connection ci: own pending writes applied to the committed
        state now, or (inside a transaction) to any committed state since its BEGIN (snapshot vs read-committed)."""
        if txn[ci] is None:
            return [committed[t]]
        outs = []
        for base in txn[ci]["hist"][t]:
            c = Counter(base)
            for (tt, op) in txn[ci]["ops"]:
                if tt == t:
                    c = _apply(c, op)
            if c not in outs:
                outs.append(c)
        return outs

    threaded = bool(case.get("threaded"))
    commented = bool(case.get("commented"))  # every statement starts with a line comment

    def run(sql: str) -> dict:
        """Through the chosen cursor; in threaded cases cursor 1 is made and used in a helper thread of its own (the
        connection, not the thread, owns the transaction)."""
        if commented:
            sql = "-- a note before the statement\n" + sql
        if threaded and cidx == 1:
            env.count("statements_through_thread_made_cursor")
            return _in_thread(lambda: core.run_stmt(conns[ci].cursor(), sql))
        return core.run_stmt(cur, sql)

    for step, ci in enumerate(order):
        op = scripts[ci][pos[ci]]
        pos[ci] += 1
        kind, cidx = op[0], op[1]
        if kind == "merge_own" and nodb:
            kind = "ins_own"  # MERGE needs a current schema for its helper table (a C07 known finding)
        cur = curs[ci][cidx]
        own = f"T{ci}"
        env.cover("op", f"{kind}/{'in-txn' if txn[ci] is not None else 'autocommit'}")
        for j in range(k):
            if j != ci and txn[j] is not None:
                other_step_in_txn[j] = True

        def write(t: str, mop: tuple) -> None:
            if txn[ci] is None:
                committed[t] = _apply(committed[t], mop)
            else:
                txn[ci]["ops"].append((t, mop))
                saw_txn_write[ci] = True

        out = None
        if kind == "begin":
            out = run(r.choice(["BEGIN", "begin transaction", "BEGIN TRANSACTION", "Begin"]))
            txn[ci] = {"hist": {t: [Counter(c)] for t, c in committed.items()}, "ops": []}
        elif kind in ("ins_own", "ins_sh"):
            t = own if kind == "ins_own" else "SH"
            row = (next(_state["uid"]), ci)
            out = run(f"INSERT INTO {P}{t} VALUES ({row[0]}, {row[1]})")
            write(t, ("ins", row))
        elif kind == "wp_own":
            # rows loaded with write_pandas are statements of the session like any other
            import pandas as pd

            import fakesnow.fakes as fakes

            row = (next(_state["uid"]), ci)
            try:
                fakes.write_pandas(conns[ci], pd.DataFrame({"ID": [row[0]], "V": [row[1]]}), own, database="DB1", schema="S1")
                out = {"ok": True, "rows": None}
            except Exception as e:  # noqa: BLE001
                out = {"ok": False, "exc": core.exc_info(e)}
            write(own, ("ins", row))
        elif kind == "execmany_own":
            # executemany is its statements, one after the other, inside or outside the user's transaction
            r1, r2 = (next(_state["uid"]), ci), (next(_state["uid"]), ci)
            try:
                cur_for_many = conns[ci].cursor()
                cur_for_many.executemany(f"INSERT INTO {P}{own} VALUES (%s, %s)", [r1, r2])
                out = {"ok": True, "rows": None}
            except Exception as e:  # noqa: BLE001
                out = {"ok": False, "exc": core.exc_info(e)}
            write(own, ("ins", r1))
            write(own, ("ins", r2))
        elif kind == "execmany_fail":
            # an executemany that fails to compile changes nothing: not the data, not whether a transaction is open
            try:
                conns[ci].cursor().executemany("INSERT INTO no_such_table_c13 VALUES (%s, %s)", [(1, 1), (2, 2)])
                env.witness("C13/fail-statement-succeeded", "executemany into a missing table")
            except Exception:  # noqa: BLE001
                pass
        elif kind == "execmany_runtime_fail":
            # an executemany one of whose rows is refused while it runs (a value the column cannot take, or a row that is too
            # short).  In autocommit the session is in autocommit afterwards as well: whether the rows before the bad one were
            # kept is not asserted (the connector sends one multi-row INSERT, the fake one INSERT per row) - the table holds all
            # of them or none - but every later statement is again visible to the others at once and stays after a ROLLBACK.
            # Inside a transaction a run-time failure is the listed finding (the engine aborts the transaction), so the
            # compile-time failure is used there.
            if txn[ci] is not None:
                try:
                    conns[ci].cursor().executemany("INSERT INTO no_such_table_c13 VALUES (%s, %s)", [(1, 1), (2, 2)])
                    env.witness("C13/fail-statement-succeeded", "executemany into a missing table")
                except Exception:  # noqa: BLE001
                    pass
            else:
                r1 = (next(_state["uid"]), ci)
                bad_rows = [[r1, ("not a number", 1)], [r1, (5,)]][cidx]
                try:
                    conns[ci].cursor().executemany(f"INSERT INTO {P}{own} VALUES (%s, %s)", bad_rows)
                    env.witness("C13/fail-statement-succeeded", f"executemany {bad_rows}")
                except Exception:  # noqa: BLE001
                    pass
                env.count("runtime_failing_executemany_in_autocommit")
                got_now = Counter(tuple(x) for x in raw.execute(f"select ID, V from DB1.S1.{own}").fetchall())
                if got_now == _apply(committed[own], ("ins", r1)):
                    committed[own] = got_now
                # (if it is neither, the committed-view monitor below reports it)
                # the follow-up shows whether the session still commits by itself
                row = (next(_state["uid"]), ci)
                out = run(f"INSERT INTO {P}{own} VALUES ({row[0]}, {row[1]})")
                write(own, ("ins", row))
        elif kind == "script_fail":
            # a script that fails to compile at its second statement: the first is applied like any statement of the session
            # (inside the open transaction, or committed at once), the rest is not run, and an open transaction stays open
            row = (next(_state["uid"]), ci)
            later = next(_state["uid"])
            try:
                conns[ci].execute_string(f"INSERT INTO {P}{own} VALUES ({row[0]}, {row[1]}); SELECT * FROM no_such_table_c13; INSERT INTO {P}{own} VALUES ({later}, 0)")
                env.witness("C13/fail-statement-succeeded", "script with a missing table")
            except Exception:  # noqa: BLE001
                pass
            write(own, ("ins", row))
        elif kind == "upd_own":
            out = run(f"UPDATE {P}{own} SET V = V + 1")
            write(own, ("upd",))
        elif kind == "del_own":
            out = run(f"DELETE FROM {P}{own} WHERE ID % 2 = 0")
            write(own, ("del",))
        elif kind == "merge_own":
            mid = next(_state["uid"]) if r.random() < 0.5 else min((i for (i, _v) in view(ci, own)[0]), default=next(_state["uid"]))
            out = run(f"MERGE INTO {P}{own} t USING (SELECT {mid} AS ID, 500 AS V) s ON t.ID = s.ID "
                                     "WHEN MATCHED THEN UPDATE SET V = s.V WHEN NOT MATCHED THEN INSERT (ID, V) VALUES (s.ID, s.V)")
            write(own, ("merge", mid))
        elif kind == "fail":
            o = run("SELECT * FROM no_such_table_c13")
            if o["ok"]:
                env.witness("C13/fail-statement-succeeded", str(o))
        elif kind == "sel":
            pass
        elif kind in ("with_block", "with_block_exc"):
            # the connection (and a cursor) used as a context manager: leaving the block neither commits nor rolls back
            try:
                with conns[ci] as c_:
                    with c_.cursor() as k_:
                        k_.execute("SELECT 1").fetchall()
                    if kind == "with_block_exc":
                        raise KeyError("left by an exception")
            except KeyError:
                pass
        elif kind in ("commit", "rollback"):
            had = txn[ci] is not None
            if op[2] == "sql":
                out = run(kind.upper() if r.random() < 0.5 else kind)
            else:
                def api(kind: str = kind) -> dict:
                    try:
                        getattr(conns[ci], kind)()
                        return {"ok": True, "rows": None}
                    except Exception as e:  # noqa: BLE001
                        return {"ok": False, "exc": core.exc_info(e)}
                out = _in_thread(api) if threaded and cidx == 1 else api()
            if had:
                env.count("commits_in_txn" if kind == "commit" else "rollbacks_in_txn")
                if saw_txn_write[ci] and other_step_in_txn[ci]:
                    interesting = True
                if kind == "commit":
                    for (t, mop) in txn[ci]["ops"]:
                        committed[t] = _apply(committed[t], mop)
                txn[ci] = None
                saw_txn_write[ci] = False
                other_step_in_txn[ci] = False
            elif out.get("ok") and op[2] == "sql":
                env.count("cmp_noop_status")
                if out.get("rows") != [("Statement executed successfully.",)]:
                    env.witness(f"C13/noop-status/{kind}", f"{kind} without transaction returned {out.get('rows')}")
            elif out.get("ok"):
                env.count("cmp_noop_status")
        if out is not None and not out["ok"]:
            env.witness(f"C13/rejected/{kind}/{out['exc']['cls']}", f"step {step} conn {ci} {op}: {out['exc']}")
            return

        # --- monitors after the step -------------------------------------
        for j in range(k):
            if txn[j] is not None:
                for t in tables:
                    if txn[j]["hist"][t][-1] != committed[t]:
                        txn[j]["hist"][t].append(Counter(committed[t]))
        for t in tables:
            env.count("cmp_committed")
            got = Counter(tuple(x) for x in raw.execute(f"select ID, V from DB1.S1.{t}").fetchall())
            if got != committed[t]:
                phase = "in-txn" if any(x is not None for x in txn) else "no-txn-open"
                env.witness(
                    f"C13/committed-view/after-{kind}/{phase}",
                    f"step {step} conn {ci} {op}: committed {t} extra {dict(got - committed[t])} missing {dict(committed[t] - got)}",
                )
                return
        for j in range(k):
            vc = curs[j][r.randint(0, 1)]
            for t in tables:
                ok = view(j, t)
                got = Counter(tuple(x) for x in vc.execute(f"SELECT ID, V FROM {P}{t}").fetchall())
                env.count("cmp_own_view")
                if j != ci and any(txn[x] is not None for x in range(k) if x != j):
                    env.count("cmp_other_view_during_txn")
                if got not in ok:
                    mode = "in-txn" if txn[j] is not None else "autocommit"
                    tk = "shared" if t == "SH" else ("own" if t == f"T{j}" else "other")
                    env.witness(
                        f"C13/session-view/{mode}/{tk}-table",
                        f"step {step} after conn {ci} {op}: conn {j} sees {t} = {dict(got)}; acceptable {[dict(x) for x in ok][:3]}",
                    )
                    return
    if interesting:
        env.nontrivial(case)
