"""C01 Stored values read back unchanged, in the connector's Python types.

Monitor: exactly-once + identity over (type spelling x ingestion path x value pool x NULL
placement): every written row id is read back once with an equal Python value of the
connector's type, through the tuple cursor, DictCursor and fetch_pandas_all; a bystander
table must be untouched."""

from __future__ import annotations

import datetime
import decimal
import json
import math
import random
from typing import Any

import snowflake.connector

from fsverif import core

ID = "C01"
LEVEL = "exploration"
BUDGET = {"quick": 80, "thorough": 600}
RULE = (
    "case = (column type spelling, ingestion path {literal INSERT, multi-row literal, pyformat bound, qmark bound, executemany, "
    "INSERT..SELECT, CTAS, CLONE, write_pandas [column subset / permuted / auto-create]}, 3-8 values from the type's edge + "
    "random pool with NULLs interleaved). Non-trivial = at least one non-NULL value was written and compared after read-back; "
    "distinct = distinct (type, path, values)."
)
REQUIRED = ["cmp_value", "cmp_pytype", "cmp_exactly_once", "cmp_null", "cmp_bystander", "cmp_dict", "cmp_pandas", "cmp_mixed_fetch"]
ASSUMPTIONS = [
    "domains: INT family = int64; NUMBER(p,s) = p digits; FLOAT family = finite doubles (no negative zero through decimal "
    "literals); timestamps = microsecond resolution within datetime's range; VARCHAR = unicode without U+0000; VARIANT values "
    "are written with PARSE_JSON",
    "auto_create_table in write_pandas is exercised for int64/str columns only (other dtypes are explicitly NotImplemented)",
]

D = decimal.Decimal
decimal.getcontext().prec = 80
UTC = datetime.timezone.utc

I64 = [0, 1, -1, 127, 128, 255, 256, 32767, 32768, 2**31 - 1, 2**31, -(2**31), -(2**31) - 1, 2**53 + 1, 2**63 - 1, -(2**63), 10**18, 42]
F64 = [0.0, 1.0, -1.0, 0.1, 1.5, -2.25, 1e300, -1e300, 1.7976931348623157e308, 5e-324, 2.2250738585072014e-308, 123456789.12345679,
       3.141592653589793, 1e-10, 16777217.0, 9007199254740993.0, 0.30000000000000004]
STR = ["", "a", "abc", "it's", "two words", "é✓🎉", "日本語テキスト", "á", "line1\nline2", "tab\t", "back\\slash", "quote\"d", "%s %d", "$x",
       ";--/**/", " lead and trail ", "x" * 300, "NULL", "null", "🎉" * 20]
DATES = [datetime.date(1, 1, 1), datetime.date(1582, 10, 15), datetime.date(1900, 2, 28), datetime.date(1969, 12, 31), datetime.date(1970, 1, 1),
         datetime.date(2000, 2, 29), datetime.date(2024, 2, 29), datetime.date(2038, 1, 19), datetime.date(9999, 12, 31)]
TIMES = [datetime.time(0, 0, 0), datetime.time(23, 59, 59), datetime.time(12, 34, 56, 789012), datetime.time(23, 59, 59, 999999),
         datetime.time(0, 0, 0, 1), datetime.time(1, 2, 3, 100000)]
TS = [datetime.datetime(1, 1, 1, 0, 0, 0), datetime.datetime(1969, 12, 31, 23, 59, 59, 999999), datetime.datetime(1970, 1, 1, 0, 0, 0),
      datetime.datetime(1970, 1, 1, 0, 0, 0, 1), datetime.datetime(2000, 2, 29, 12, 0, 0, 500000), datetime.datetime(2024, 2, 29, 23, 59, 59, 123456),
      datetime.datetime(2038, 1, 19, 3, 14, 8), datetime.datetime(9999, 12, 31, 23, 59, 59, 999999), datetime.datetime(1900, 1, 1, 0, 0, 0, 999),
      datetime.datetime(1677, 9, 21, 0, 12, 43), datetime.datetime(2262, 4, 12, 0, 0, 0)]
JSONS = [{"a": 1}, {"k": [1, 2.5, "x", None, True], "e": {}}, [], {}, [1, "a", None], {"nested": {"deep": {"deeper": [{"x": "y"}]}}}, "plain string",
         "with \"quotes\" and \\ backslash", 12345, 1.5, True, None, {"unicode": "é✓🎉", "esc": "line\nbreak\ttab"}, [[], [[]], {}], {"a b": 1, "": 2}]
OBJS = [j for j in JSONS if isinstance(j, dict)]
ARRS = [j for j in JSONS if isinstance(j, list)]
BYTES = [b"", b"A", b"AB", b"\x00", b"\x00\xff", bytes(range(256)), b"hello world", b"\xe2\x9d\x84"]


def dec_pool(p: int, s: int) -> list:
    mx = D(10) ** (p - s) - D(1).scaleb(-s)
    vals = [D(0), D(1).scaleb(-s), -D(1).scaleb(-s), mx, -mx, D(5).scaleb(-s)]
    if p - s >= 1:
        vals += [D(1), D(-1)]
    if s >= 1 and p - s >= 1:
        vals += [D("1.5").quantize(D(1).scaleb(-s)) if s >= 1 else D(2), D("0.5").quantize(D(1).scaleb(-s))]
    return [v.quantize(D(1).scaleb(-s)) if s else v.to_integral_value() for v in vals]


# (spelling, family, expected-python-kind, extra)
TYPES: list[tuple] = [
    ("BOOLEAN", "bool", None),
    ("INT", "int", None), ("INTEGER", "int", None), ("BIGINT", "int", None), ("SMALLINT", "int", None), ("TINYINT", "int", None), ("BYTEINT", "int", None),
    ("NUMBER", "dec", (38, 0)), ("NUMBER(1)", "dec", (1, 0)), ("NUMBER(9)", "dec", (9, 0)), ("NUMBER(10,0)", "dec", (10, 0)), ("NUMBER(18,0)", "dec", (18, 0)),
    ("NUMBER(19,0)", "dec", (19, 0)), ("NUMBER(38,0)", "dec", (38, 0)), ("NUMBER(10,2)", "dec", (10, 2)), ("NUMBER(38,10)", "dec", (38, 10)),
    ("NUMBER(38,37)", "dec", (38, 37)), ("NUMBER(5,5)", "dec", (5, 5)), ("DECIMAL(12,3)", "dec", (12, 3)), ("NUMERIC(20,1)", "dec", (20, 1)),
    ("FLOAT", "float", None), ("FLOAT4", "float", None), ("FLOAT8", "float", None), ("DOUBLE", "float", None), ("DOUBLE PRECISION", "float", None), ("REAL", "float", None),
    ("VARCHAR", "str", None), ("VARCHAR(400)", "str", None), ("STRING", "str", None), ("TEXT", "str", None),
    ("DATE", "date", None), ("TIME", "time", None),
    ("TIMESTAMP_NTZ", "ntz", None), ("DATETIME", "ntz", None), ("TIMESTAMP", "ntz", None), ("TIMESTAMP_TZ", "tz", None),
    ("BINARY", "bytes", None), ("VARBINARY", "bytes", None),
    ("VARIANT", "json", "any"), ("OBJECT", "json", "object"), ("ARRAY", "json", "array"),
]
PATHS = ["literal", "literal_multi", "pyformat", "qmark", "executemany", "insert_select", "ctas", "clone", "insert_select_cast", "ctas_cast",
         "write_pandas", "write_pandas_subset", "write_pandas_permuted", "write_pandas_auto", "write_pandas_chunked", "write_pandas_zoned"]


ZONES = ["Asia/Kolkata", "America/New_York", "Europe/London", "+09:30", "Pacific/Chatham", "UTC"]


def pool(fam: str, extra: Any, r: random.Random) -> list:
    if fam == "bool":
        return [True, False]
    if fam == "int":
        return I64 + [r.randint(-(2**63), 2**63 - 1) for _ in range(4)]
    if fam == "dec":
        p, s = extra
        out = dec_pool(p, s)
        for _ in range(4):
            digits = r.randint(1, p)
            n = r.randint(0, 10**digits - 1) * r.choice([1, -1])
            out.append(D(n).scaleb(-s))
        return out
    if fam == "float":
        return F64 + [r.uniform(-1e6, 1e6), r.random() * 10 ** r.randint(-300, 300), float(r.randint(-(2**53), 2**53))]
    if fam == "str":
        return STR + ["".join(r.choice("abc é✓🎉'\\\"%$;\n") for _ in range(r.randint(1, 30)))]
    if fam == "date":
        return DATES + [datetime.date.fromordinal(r.randint(1, 3652059)) for _ in range(3)]
    if fam == "time":
        return TIMES + [datetime.time(r.randint(0, 23), r.randint(0, 59), r.randint(0, 59), r.randint(0, 999999))]
    if fam in ("ntz", "tz"):
        rnd = [datetime.datetime(1, 1, 1) + datetime.timedelta(days=r.randint(0, 3652058), seconds=r.randint(0, 86399), microseconds=r.randint(0, 999999))
               for _ in range(3)]
        base = TS + rnd
        return base if fam == "ntz" else [t.replace(tzinfo=UTC) for t in base]
    if fam == "bytes":
        return BYTES + [bytes(r.randrange(256) for _ in range(r.randint(1, 40)))]
    if fam == "json":
        return JSONS if extra == "any" else OBJS if extra == "object" else ARRS
    raise ValueError(fam)


def gen_cases(tier: str, seed: int):
    r = random.Random(f"{seed}:C01")
    reps = 8 if tier == "quick" else 60
    for rep in range(reps):
        for ti, (spell, fam, extra) in enumerate(TYPES):
            for path in PATHS:
                if path == "write_pandas_auto" and fam not in ("int", "str"):
                    continue
                if path.endswith("_cast") and fam not in ("int", "dec", "float", "str", "date", "time", "ntz", "bool"):
                    continue
                if path == "write_pandas_zoned" and fam != "tz":
                    continue
                pl = pool(fam, extra, r)
                if path == "write_pandas_zoned":
                    # a datetime64[ns, zone] column holds 1677..2262 only
                    pl = [v for v in pl if 1700 <= v.year <= 2250]
                k = r.randint(5, 8) if tier == "quick" else r.randint(3, 10)
                vals = r.sample(pl, min(k, len(pl)))
                # NULL placement
                for _ in range(r.choice([0, 1, 1, 2])):
                    vals.insert(r.randint(0, len(vals)), None)
                yield core.jsonable({"type": ti, "path": path, "vals": _enc(vals, fam), "decimal_notation": fam == "float" and r.random() < 0.25,
                                     "zone": r.choice(ZONES)})


def _enc(vals: list, fam: str) -> list:
    if fam == "json":
        return [None if v is None else {"$json": json.dumps(v)} for v in vals]
    if fam == "tz":
        return [None if v is None else {"$tz": v.replace(tzinfo=None).isoformat()} for v in vals]
    return vals


def _dec(vals: list) -> list:
    out = []
    for v in vals:
        if isinstance(v, dict) and "$json" in v:
            out.append(("json", json.loads(v["$json"])))
        elif isinstance(v, dict) and "$tz" in v:
            out.append(datetime.datetime.fromisoformat(v["$tz"]).replace(tzinfo=UTC))
        else:
            out.append(v)
    return out


DECIMAL_NOTATION = [False]  # set per case: write float literals as 123.45 (a NUMBER literal) instead of 1.2345e2


def lit(v: Any, fam: str) -> str:
    if v is None:
        return "NULL"
    if fam == "bool":
        return "TRUE" if v else "FALSE"
    if fam in ("int", "dec"):
        return format(v, "f") if isinstance(v, D) else str(v)  # never E-notation: that would be a FLOAT literal
    if fam == "float":
        t = repr(v)
        return t if ("e" in t or DECIMAL_NOTATION[0]) else t + "e0"
    if fam == "str":
        return "'" + v.replace("\\", "\\\\").replace("'", "''") + "'"
    if fam == "date":
        return f"'{v.isoformat()}'"
    if fam == "time":
        return f"'{v.isoformat()}'"
    if fam == "ntz":
        return f"'{v.isoformat(sep=' ')}'"
    if fam == "tz":
        return f"'{v.replace(tzinfo=None).isoformat(sep=' ')}+00:00'"
    if fam == "bytes":
        return f"X'{v.hex()}'"
    if fam == "json":
        return "PARSE_JSON('" + json.dumps(v[1]).replace("\\", "\\\\").replace("'", "''") + "')"
    raise ValueError(fam)


def pyparam(v: Any, fam: str) -> Any:
    if fam == "json" and v is not None:
        return json.dumps(v[1])
    return v


_state: dict[str, Any] = {}


NAMESAKES = ["DF", "DATA", "FRAME", "ROWS"]


def setup_worker(env: core.Env) -> None:
    fs = core.new_fs()
    saved = snowflake.connector.paramstyle
    conn = fs.connect("db1", "s1")
    snowflake.connector.paramstyle = "qmark"
    try:
        qconn = fs.connect("db1", "s1")
    finally:
        snowflake.connector.paramstyle = saved
    cur = conn.cursor()
    cur.execute("CREATE TABLE BYSTANDER (ID INT, S VARCHAR)")
    cur.execute("INSERT INTO BYSTANDER VALUES (1, 'keep'), (2, NULL)")
    # tables that carry the names a loader's own Python variables tend to have: what is loaded is the frame handed over
    for nm in NAMESAKES:
        cur.execute(f"CREATE TABLE {nm} (ID INT, V VARCHAR, EXTRA VARCHAR)")
        cur.execute(f"INSERT INTO {nm} VALUES (-7, NULL, 'namesake of a variable')")
    _state.update(fs=fs, conn=conn, qconn=qconn, raw=core.raw_root(fs).cursor())


def _vclass(v: Any, fam: str) -> str:
    if v is None:
        return "null"
    if fam == "int":
        return "int32" if -(2**31) <= v < 2**31 else "int64"
    if fam == "dec":
        return "decimal"
    if fam == "float":
        return "float"
    if fam == "str":
        return "empty" if v == "" else "ascii" if v.isascii() else "unicode"
    if fam in ("ntz", "tz"):
        return "pre-1970" if v.year < 1970 else "post-1970"
    if fam == "json":
        return "json-" + type(v[1]).__name__
    return fam


def _equal(got: Any, want: Any, fam: str, extra: Any) -> str | None:
    """None when equal and of the connector's Python type; else a discrepancy label."""
    if want is None:
        return None if got is None else "null-became-value"
    if got is None:
        return "value-became-null"
    if fam == "bool":
        return None if isinstance(got, bool) and got == want else f"bool-mismatch-{type(got).__name__}"
    if fam == "int":
        if isinstance(got, bool) or not isinstance(got, int):
            return f"pytype-{type(got).__name__}-not-int"
        return None if got == want else "value-differs"
    if fam == "dec":
        p, s = extra
        if s == 0:
            if isinstance(got, D):
                if got == want:
                    return "pytype-Decimal-not-int"
                return "decimal-rounded-through-double" if float(got) == float(want) and len(want.as_tuple().digits) > 15 else "value-differs"
            if isinstance(got, bool) or not isinstance(got, int):
                return f"pytype-{type(got).__name__}-not-int"
            return None if got == want else "value-differs"
        if not isinstance(got, D):
            return f"pytype-{type(got).__name__}-not-Decimal"
        if got != want:
            return "decimal-rounded-through-double" if float(got) == float(want) and len(want.as_tuple().digits) > 15 else "value-differs"
        return None if -got.as_tuple().exponent == s else f"scale-{-got.as_tuple().exponent}-not-declared"
    if fam == "float":
        if not isinstance(got, float):
            return f"pytype-{type(got).__name__}-not-float"
        if got == want or (math.isnan(got) and math.isnan(want)):
            return None
        if want != 0 and abs(got - want) <= 4 * math.ulp(want):
            return "float-off-by-ulp"
        return "value-differs"
    if fam == "str":
        if not isinstance(got, str):
            return f"pytype-{type(got).__name__}-not-str"
        return None if got == want else "value-differs"
    if fam == "date":
        if isinstance(got, datetime.datetime) or not isinstance(got, datetime.date):
            return f"pytype-{type(got).__name__}-not-date"
        return None if got == want else "value-differs"
    if fam == "time":
        if not isinstance(got, datetime.time):
            return f"pytype-{type(got).__name__}-not-time"
        return None if got == want else "value-differs"
    if fam == "ntz":
        if not isinstance(got, datetime.datetime):
            return f"pytype-{type(got).__name__}-not-datetime"
        if got.tzinfo is not None:
            return "naive-expected-got-aware"
        return None if got == want else "value-differs"
    if fam == "tz":
        if not isinstance(got, datetime.datetime):
            return f"pytype-{type(got).__name__}-not-datetime"
        if got.tzinfo is None:
            return "aware-expected-got-naive"
        if got.utcoffset() != datetime.timedelta(0):
            return "not-utc"
        return None if got == want else "value-differs"
    if fam == "bytes":
        if not isinstance(got, (bytes, bytearray)):
            return f"pytype-{type(got).__name__}-not-bytes"
        return None if bytes(got) == want else "value-differs"
    if fam == "json":
        if not isinstance(got, str):
            return f"pytype-{type(got).__name__}-not-json-text"
        try:
            return None if json.loads(got) == want[1] and type(json.loads(got)) is type(want[1]) else "value-differs"
        except ValueError:
            return "not-json-text"
    raise ValueError(fam)


def run_case(case: dict, env: core.Env) -> None:
    case = core.unjson(case)
    spell, fam, extra = TYPES[case["type"]]
    path = case["path"]
    vals = _dec(case["vals"])
    conn, qconn, raw = _state["conn"], _state["qconn"], _state["raw"]
    cur = conn.cursor()
    env.cover("type_x_path", f"{spell}/{path}")
    famc = f"{fam}{'' if fam != 'dec' else ('-scale0' if extra[1] == 0 else '-scaled')}"
    form = {"literal": "literal", "literal_multi": "literal", "pyformat": "client-bound", "executemany": "client-bound", "qmark": "qmark",
            "write_pandas": "write_pandas", "write_pandas_subset": "write_pandas", "write_pandas_permuted": "write_pandas",
            "write_pandas_chunked": "write_pandas", "write_pandas_zoned": "write_pandas"}.get(path, path)
    DECIMAL_NOTATION[0] = bool(case.get("decimal_notation"))
    if DECIMAL_NOTATION[0] and fam == "float" and form in ("literal", "insert_select", "ctas", "clone", "insert_select_cast", "ctas_cast"):
        form += ":decimal-notation"
    cell = f"{famc}/{form}"
    rows = list(enumerate(vals, start=1))
    ddl = f"(ID INT, V {spell})"

    def reject(e: dict, stage: str) -> None:
        vcls = sorted({_vclass(v, fam) for _, v in rows if v is not None})
        env.cover("rejected_cells", cell)
        if fam == "bytes" and e["cls"] == "TokenError" and any(v == b"" for _, v in rows):
            env.witness("C01/rejected/bytes/empty-hex-literal", f"{stage}: {e}"[:600])
            return
        env.witness(f"C01/rejected/{cell}/{e['kind']}", f"{stage}: {e}; type {spell} values {vcls}"[:900])

    cur.execute("DROP TABLE IF EXISTS T")
    cur.execute("DROP TABLE IF EXISTS SRC")
    target = "T"
    try:
        if path in ("insert_select", "ctas", "clone", "insert_select_cast", "ctas_cast"):
            cur.execute(f"CREATE TABLE SRC {ddl}")
            if rows:
                o = core.run_stmt(cur, "INSERT INTO SRC (ID, V) VALUES " + ", ".join(f"({i}, {lit(v, fam)})" for i, v in rows) if fam != "json" else
                                  "INSERT INTO SRC (ID, V) " + " UNION ALL ".join(f"SELECT {i}, {lit(v, fam)}" for i, v in rows))
                if not o["ok"]:
                    return reject(o["exc"], "filling the source table by literals")
            if path == "insert_select":
                cur.execute(f"CREATE TABLE T {ddl}")
                o = core.run_stmt(cur, "INSERT INTO T SELECT ID, V FROM SRC")
            elif path == "insert_select_cast":
                # the value passes through a cast to its own type on the way
                cur.execute(f"CREATE TABLE T {ddl}")
                o = core.run_stmt(cur, f"INSERT INTO T SELECT ID, V::{spell} FROM SRC")
            elif path == "ctas_cast":
                o = core.run_stmt(cur, f"CREATE TABLE T AS SELECT ID, CAST(V AS {spell}) AS V FROM SRC")
            elif path == "ctas":
                o = core.run_stmt(cur, "CREATE TABLE T AS SELECT * FROM SRC")
            else:
                o = core.run_stmt(cur, "CREATE TABLE T CLONE SRC")
            if not o["ok"]:
                return reject(o["exc"], path)
            if path.startswith("insert_select") and o["rows"] != [(len(rows),)]:
                env.witness(f"C01/insert-select-count/{cell}", f"{o['rows']} for {len(rows)} rows")
        elif path.startswith("write_pandas"):
            import pandas as pd

            import fakesnow.fakes as fakes

            if path != "write_pandas_auto":
                cur.execute(f"CREATE TABLE T (ID INT, V {spell}, EXTRA VARCHAR)")
            data: dict[str, Any] = {"ID": [i for i, _ in rows]}
            pv = [None if v is None else (v[1] if fam == "json" else v) for _, v in rows]
            if fam == "json":
                pv = [v if isinstance(v, (dict, list)) or v is None else json.dumps(v) for v in pv]
            if fam in ("ntz",):
                col = pd.Series(pv, dtype="object")
            elif fam == "int" and all(v is not None for v in pv) and pv:
                col = pd.Series(pv, dtype="int64")
            elif fam == "int":
                col = pd.array(pv, dtype="Int64")
            elif fam == "float":
                col = pd.Series(pv, dtype="object")
            else:
                col = pd.Series(pv, dtype="object")
            if path == "write_pandas_auto":
                if fam == "int" and col.dtype != "int64":
                    col = pd.Series([v if v is not None else 0 for v in pv], dtype="int64")
                    rows = [(i, v if v is not None else 0) for i, v in rows]
                data["V"] = col
                df = pd.DataFrame(data)
                args = {"auto_create_table": True}
            elif path == "write_pandas_subset":
                data["V"] = col
                df = pd.DataFrame(data)  # EXTRA not supplied
                args = {}
            elif path == "write_pandas_permuted":
                df = pd.DataFrame({"EXTRA": ["x"] * len(rows), "V": col, "ID": data["ID"]})
                args = {}
            elif path == "write_pandas_chunked":
                # a frame whose index is not 0..n-1 (as after filtering or sorting), loaded a few rows at a time
                data["V"] = col
                data["EXTRA"] = [None] * len(rows)
                df = pd.DataFrame(data)
                df.index = [7 + 3 * ((j * 5) % max(len(rows), 1)) for j in range(len(rows))] if len(rows) % 2 else list(range(100, 100 + len(rows)))
                args = {"chunk_size": 2}
            elif path == "write_pandas_zoned":
                # the same instants as a time-zone-aware datetime64 column of some other zone than UTC
                zone = case.get("zone", "Asia/Kolkata")
                tzobj = datetime.timezone(datetime.timedelta(hours=9, minutes=30)) if zone == "+09:30" else zone
                naive = pd.Series(pd.to_datetime([None if v is None else v.replace(tzinfo=None) for v in pv]))
                data["V"] = naive.dt.tz_localize("UTC").dt.tz_convert(tzobj)
                data["EXTRA"] = [None] * len(rows)
                df = pd.DataFrame(data)
                args = {}
            else:
                data["V"] = col
                data["EXTRA"] = [None] * len(rows)
                df = pd.DataFrame(data)
                args = {}
            try:
                res = fakes.write_pandas(conn, df, "T", **args)
            except Exception as e:  # noqa: BLE001
                return reject(core.exc_info(e), "write_pandas")
            if res[0] is not True or res[2] != len(rows):
                env.witness(f"C01/write_pandas-result/{cell}", f"{res} for {len(rows)} rows")
        else:
            cur.execute(f"CREATE TABLE T {ddl}")
            if path == "literal":
                for i, v in rows:
                    sql = f"INSERT INTO T (ID, V) VALUES ({i}, {lit(v, fam)})" if fam != "json" else f"INSERT INTO T (ID, V) SELECT {i}, {lit(v, fam)}"
                    o = core.run_stmt(cur, sql)
                    if not o["ok"]:
                        return reject(o["exc"], sql[:200])
            elif path == "literal_multi":
                if not rows:
                    return
                sql = ("INSERT INTO T (ID, V) VALUES " + ", ".join(f"({i}, {lit(v, fam)})" for i, v in rows)) if fam != "json" else (
                    "INSERT INTO T (ID, V) " + " UNION ALL ".join(f"SELECT {i}, {lit(v, fam)}" for i, v in rows))
                o = core.run_stmt(cur, sql)
                if not o["ok"]:
                    return reject(o["exc"], sql[:300])
            elif path in ("pyformat", "qmark", "executemany"):
                c2 = qconn.cursor() if path == "qmark" else cur
                ph = "?" if path == "qmark" else "%s"
                sql = f"INSERT INTO T (ID, V) VALUES ({ph}, {ph})" if fam != "json" else f"INSERT INTO T (ID, V) SELECT {ph}, PARSE_JSON({ph})"
                params = [(i, pyparam(v, fam)) for i, v in rows]
                try:
                    if path == "executemany":
                        c2.executemany(sql, params)
                    else:
                        for p in params:
                            c2.execute(sql, p)
                except Exception as e:  # noqa: BLE001
                    return reject(core.exc_info(e), f"{sql} {params[:2]}")
        # ---------------- read back
        out = core.run_stmt(cur, f"SELECT ID, V FROM {target} ORDER BY ID")
        if not out["ok"]:
            return reject(out["exc"], "reading back")
        got = out["rows"]
        env.count("cmp_exactly_once")
        if [g[0] for g in got] != [i for i, _ in rows]:
            env.witness(f"C01/rows-lost-or-duplicated/{cell}", f"ids written {[i for i, _ in rows]} read {[g[0] for g in got]}")
            return
        for (i, want), g in zip(rows, got):
            env.count("cmp_null" if want is None else "cmp_value")
            env.count("cmp_pytype")
            bad = _equal(g[1], want, fam, extra)
            if bad:
                vc = _vclass(want, fam)
                if bad.startswith("pytype-Decimal-not-int"):
                    key = f"C01/{bad}/{famc}" + ("/write_pandas_auto" if path == "write_pandas_auto" else "")
                elif bad in ("float-off-by-ulp", "decimal-rounded-through-double"):
                    key = f"C01/{bad}/{cell}"
                else:
                    key = f"C01/{bad}/{cell}/{vc}"
                env.witness(key, f"type {spell} via {path}: wrote {want!r} read {g[1]!r}")
                break
        # DictCursor and pandas agree with the tuple cursor
        env.count("cmp_dict")
        dc = conn.cursor(core.DictCursor)
        drows = dc.execute(f"SELECT ID, V FROM {target} ORDER BY ID").fetchall()
        if [(d["ID"], d["V"]) for d in drows] != [tuple(g) for g in got] and not any(isinstance(g[1], float) and math.isnan(g[1]) for g in got):
            env.witness(f"C01/dict-cursor-differs/{cell}", f"{drows[:3]} vs {got[:3]}")
        # every written row exactly once however the result is drained: one row, a page, then the rest
        env.count("cmp_mixed_fetch")
        for cls in (None, core.DictCursor):
            mc = conn.cursor(cls) if cls else conn.cursor()
            mc.execute(f"SELECT ID, V FROM {target} ORDER BY ID")
            first = mc.fetchone()
            drained = ([first] if first is not None else []) + list(mc.fetchmany(2)) + list(mc.fetchall())
            ids = [(d["ID"] if cls else d[0]) for d in drained]
            if ids != [g[0] for g in got]:
                env.witness(f"C01/rows-lost-or-duplicated/mixed-fetch/{'dict' if cls else 'tuple'}-cursor",
                            f"fetchone+fetchmany(2)+fetchall over {len(got)} rows returned ids {ids}")
                break
        env.count("cmp_pandas")
        try:
            pdf = conn.cursor().execute(f"SELECT ID, V FROM {target} ORDER BY ID").fetch_pandas_all()
            if len(pdf) != len(rows) or list(pdf.columns) != ["ID", "V"]:
                env.witness(f"C01/pandas-shape/{cell}", f"{pdf.shape} {list(pdf.columns)}")
            else:
                nulls = [bool(x) for x in pdf["V"].isna()]
                if nulls != [g[1] is None for g in got] and fam != "float":
                    env.witness(f"C01/pandas-null-positions/{cell}", f"{nulls} vs {[g[1] is None for g in got]}")
        except Exception as e:  # noqa: BLE001
            env.witness(f"C01/pandas-raises/{cell}/{type(e).__name__}", str(e)[:300])
        # bystander untouched
        env.count("cmp_bystander")
        b = raw.execute("select ID, S from DB1.S1.BYSTANDER order by ID").fetchall()
        if b != [(1, "keep"), (2, None)]:
            env.witness(f"C01/bystander-changed/{cell}", str(b))
        for nm in NAMESAKES:
            b = raw.execute(f"select ID, V, EXTRA from DB1.S1.{nm}").fetchall()
            if b != [(-7, None, "namesake of a variable")]:
                env.witness(f"C01/bystander-changed/{cell}", f"{nm}: {b}")
        if any(v is not None for _, v in rows):
            env.nontrivial((spell, path, repr(vals)))
    finally:
        pass
