"""C18 With db_path, committed state survives exit, exceptions and kills.

Fault enumeration: a forked child runs a generated history on a db_path under the engine tap
and journals (fsync) every statement that returned; the parent enumerates the faults - every
exit mode, and SIGKILL before/after every engine call of the history (enumerated from a dry
run's tap log) - and a fresh forked child re-opens the path and reads the state through a raw
snapshot and through fakesnow. Recovered state must equal the committed state after the last
acknowledged statement, or after the next (in-flight) one completely."""

from __future__ import annotations

import json
import os
import random
import shutil
import signal
import sys
import tempfile
import time
import traceback
from typing import Any

from fsverif import core, tap

ID = "C18"
LEVEL = "fault_enumeration"
BUDGET = {"quick": 85, "thorough": 800}
RULE = (
    "case = one generated history (DDL with comments and VARCHAR lengths, DML, MERGE, transactions committed and rolled back, "
    "CREATE DATABASE/SCHEMA, views, ALTER) on a fresh db_path; its faults are enumerated inside the case: exit modes {clean "
    "patch() exit, exception in the body, sys.exit, os._exit, SIGTERM} and SIGKILL before and after every n-th engine call "
    "(quick: every 3rd, thorough: every call) plus re-open twice. Non-trivial = a fault run whose kill point lies inside the "
    "history (child died by the injected fault) and whose recovered state was compared; distinct = distinct (history, fault)."
)
REQUIRED = ["fault_runs", "cmp_recovered_state", "kills_delivered", "exit_modes_run", "cmp_in_memory_no_files", "cmp_reopen_ok"]
ASSUMPTIONS = [
    "expected committed states come from a fault-free run of the same history observed through a second raw engine cursor "
    "after every statement (differential oracle: durability, not statement semantics, is under test)",
    "children are forked from the worker, which has imported fakesnow but never opened an engine instance",
    "a child that does not finish within its watchdog is inconclusive, not a violation",
]

DBS = ("DB1", "DB2")


def gen_history(r: random.Random) -> list[str]:
    h = ["CREATE TABLE T1 (ID INT, S VARCHAR(10)) COMMENT = 'first'", "INSERT INTO T1 VALUES (1, 'a'), (2, 'b')"]
    made_db2 = False
    ntab = 1
    in_txn = False
    for _ in range(r.randint(5, 12)):
        x = r.random()
        if r.random() < 0.12:
            # statements that change no data or metadata themselves
            h.append(r.choice([f"SET hv = {r.randint(0, 9)}", "ALTER TABLE T1 SET TAG cost = 'x'", "UNSET hv", "SELECT COUNT(*) FROM T1"]))
            continue
        if in_txn:
            if x < 0.3:
                h.append(f"INSERT INTO T1 (ID, S) VALUES ({r.randint(100, 999)}, 'tx')")
            elif x < 0.36:
                h.append(f"COMMENT ON TABLE T{r.randint(1, ntab)} IS 'in txn {r.randint(0, 99)}'")
            elif x < 0.42:
                h.append(f"ALTER TABLE T1 ADD COLUMN X{len(h)} VARCHAR({r.choice([4, 40])})")
            elif x < 0.48:
                # the same name again with another declaration, all inside the transaction
                t = f"T{r.randint(2, ntab)}" if ntab > 1 else "TX"
                h += [f"DROP TABLE IF EXISTS {t}", f"CREATE TABLE {t} (ID INT, NAME VARCHAR({r.choice([6, 60])})) COMMENT = 'recreated in txn'"]
            elif x < 0.52:
                h.append(f"UPDATE T1 SET S = 'tu{r.randint(0, 9)}' WHERE ID <= {r.randint(1, 3)}")
            elif x < 0.75:
                h.append("COMMIT")
                in_txn = False
            else:
                h.append("ROLLBACK")
                in_txn = False
            continue
        if x < 0.15:
            ntab += 1
            h.append(f"CREATE TABLE T{ntab} (ID INT, NAME VARCHAR({r.choice([5, 20, 255])}), N NUMBER(10,2)) COMMENT = 'table {ntab}'")
        elif x < 0.35:
            h.append(f"INSERT INTO T{r.randint(1, ntab)} (ID) VALUES ({r.randint(10, 99)})")
        elif x < 0.39:
            h.append(f"#WRITE_PANDAS T1 {r.randint(1000, 9000)} {r.choice([2, 3, 100])}")  # table, first id, chunk_size
        elif x < 0.43:
            h.append(f"UPDATE T1 SET S = 'u{r.randint(0, 9)}' WHERE ID = {r.randint(1, 3)}")
        elif x < 0.48:
            h.append(f"DELETE FROM T1 WHERE ID = {r.randint(1, 99)}")
        elif x < 0.56:
            h.append("BEGIN")
            in_txn = True
        elif x < 0.62 and not made_db2:
            made_db2 = True
            h += ["CREATE DATABASE DB2", "CREATE SCHEMA DB2.S1", "CREATE TABLE DB2.S1.X (ID INT, V VARCHAR(7)) COMMENT = 'in db2'", "INSERT INTO DB2.S1.X VALUES (7, 'seven')"]
        elif x < 0.68:
            h.append(f"COMMENT ON TABLE T{r.randint(1, ntab)} IS 'changed {r.randint(0, 99)}'")
        elif x < 0.74:
            h.append(f"CREATE OR REPLACE VIEW V1 AS SELECT ID FROM T{r.randint(1, ntab)}")
        elif x < 0.82:
            h.append(f"ALTER TABLE T1 ADD COLUMN C{len(h)} VARCHAR({r.choice([3, 30])})")
        elif x < 0.9:
            h.append("MERGE INTO T1 USING (SELECT 2 AS ID, 'm' AS S UNION ALL SELECT 50, 'new') s ON T1.ID = s.ID "
                     "WHEN MATCHED THEN UPDATE SET S = s.S WHEN NOT MATCHED THEN INSERT (ID, S) VALUES (s.ID, s.S)")
        elif x < 0.95 and "CREATE SCHEMA S2" not in h:
            h.append("CREATE SCHEMA S2")
            h.append("CREATE TABLE S2.Y (ID INT) COMMENT = 'y'")
        else:
            h.append(f"CREATE OR REPLACE TABLE T{r.randint(1, ntab)}B AS SELECT * FROM T1")
    if in_txn and r.random() < 0.6:  # else: the process ends with the transaction still open
        h.append(r.choice(["COMMIT", "ROLLBACK"]))
    return h


def gen_cases(tier: str, seed: int):
    r = random.Random(f"{seed}:C18")
    n = 12 if tier == "quick" else 150
    # two fixed shapes on every run: the process ends (in every exit mode / at every kill point) inside an open transaction
    # that changed rows and metadata; once with the connection used as a context manager
    # the cheap in-memory control runs come first, so that a time budget only ever trims the generated histories
    for i in range(4 if tier == "quick" else 24):
        yield {"kind": "in_memory", "seed": r.randrange(1 << 30)}
    yield {"kind": "two_sessions"}
    for second in ("insert_more", "new_table"):
        for keep in ("exception-kept", "retry-in-handler", "connection-kept", "nothing-kept"):
            yield {"kind": "two_blocks", "second": second, "keep": keep}
    # an executemany that fails (in ways the connector does and does not translate) is followed by more committed work
    for how in ("arity", "syntax", "missing_table", "conversion"):
        em = ["CREATE TABLE T1 (ID INT, S VARCHAR(10)) COMMENT = 'first'", "INSERT INTO T1 VALUES (1, 'a')", f"#EXECUTEMANY_FAILS {how}", "INSERT INTO T1 VALUES (777, 'after')",
              "CREATE TABLE AFTER_T (ID INT, NOTE VARCHAR(4)) COMMENT = 'made after'", "INSERT INTO AFTER_T VALUES (1, 'ok')"]
        yield {"kind": "history", "history": em, "stride": 3 if tier == "quick" else 1, "offset": 1, "with_conn": False, "expect_rows": {"DB1.S1.T1": "(777, 'after')", "DB1.S1.AFTER_T": "(1, 'ok')"}}
    # a comment that is rolled back, followed by statements answered with the no-op status
    rb = ["CREATE TABLE T1 (ID INT, S VARCHAR(10)) COMMENT = 'first'", "INSERT INTO T1 VALUES (1, 'a')", "BEGIN", "COMMENT ON TABLE T1 IS 'never committed'",
          "ALTER TABLE T1 SET COMMENT = 'never committed either'", "ROLLBACK", "SET hv = 1", "ALTER TABLE T1 SET TAG cost = 'x'", "INSERT INTO T1 VALUES (2, 'b')"]
    yield {"kind": "history", "history": rb, "stride": 3 if tier == "quick" else 1, "offset": 0, "with_conn": False,
           "expect_comments": [["S1", "T1", "first"]]}
    # a statement fails inside a transaction (NOT NULL), the application carries on and rolls back at the end: whatever the later
    # statements of that transaction were answered, nothing of the transaction is there for the next process
    ft = ["CREATE TABLE T1 (ID INT NOT NULL, S VARCHAR(10)) COMMENT = 'first'", "INSERT INTO T1 VALUES (1, 'a')", "BEGIN", "INSERT INTO T1 VALUES (100, 'tx')",
          "#TRY INSERT INTO T1 VALUES (NULL, 'bad')", "#TRY INSERT INTO T1 VALUES (101, 'later')", "#TRY UPDATE T1 SET S = 'touched' WHERE ID = 1",
          "#TRY CREATE TABLE MADE_IN_TXN (ID INT, S VARCHAR(3)) COMMENT = 'never committed'", "#TRY ROLLBACK", "INSERT INTO T1 VALUES (2, 'b')"]
    for wc in (False, True):
        yield {"kind": "history", "history": ft, "stride": 3 if tier == "quick" else 1, "offset": int(wc), "with_conn": wc,
               "expect_rows": {"DB1.S1.T1": "(2, 'b')"}, "expect_exact": {"DB1.S1.T1": ["(1, 'a')", "(2, 'b')"]}, "expect_no_table": ["DB1.S1.MADE_IN_TXN"]}
    # statements that fail in autocommit (the application catches the error and carries on) are followed by more work: everything
    # acknowledged afterwards is committed work like everything before
    fa = ["CREATE TABLE T1 (ID INT, S VARCHAR(10)) COMMENT = 'first'", "INSERT INTO T1 VALUES (1, 'a')",
          "#TRY CREATE TABLE T1 (ID INT, S VARCHAR(5)) COMMENT = 'again'", "INSERT INTO T1 VALUES (2, 'b')",
          "#TRY CREATE VIEW V_BAD AS SELECT * FROM NO_SUCH_TABLE_18", "CREATE TABLE AFTER_T (ID INT, NOTE VARCHAR(4)) COMMENT = 'made after'",
          "INSERT INTO AFTER_T VALUES (1, 'ok')", "#TRY ALTER TABLE NO_SUCH_TABLE_18 ADD COLUMN C VARCHAR(3)", "#TRY COMMENT ON TABLE NO_SUCH_SCHEMA_18.T IS 'x'",
          "#TRY INSERT INTO T1 VALUES ('not a number', 'x')", "INSERT INTO T1 VALUES (3, 'c')"]
    for wc in (False, True):
        yield {"kind": "history", "history": fa, "stride": 3 if tier == "quick" else 1, "offset": int(wc), "with_conn": wc,
               "expect_rows": {"DB1.S1.T1": "(3, 'c')", "DB1.S1.AFTER_T": "(1, 'ok')"}, "expect_exact": {"DB1.S1.T1": ["(1, 'a')", "(2, 'b')", "(3, 'c')"]},
               "expect_comments": [["S1", "AFTER_T", "made after"], ["S1", "T1", "first"]]}
    # comments of views are Snowflake-side metadata like those of tables: a later process finds them
    vc = ["CREATE TABLE T1 (ID INT, S VARCHAR(10)) COMMENT = 'first'", "INSERT INTO T1 VALUES (1, 'a')", "CREATE VIEW V1 COMMENT = 'declared with the view' AS SELECT ID FROM T1",
          "CREATE VIEW V2 AS SELECT S FROM T1", "COMMENT ON VIEW V2 IS 'commented later'", "CREATE VIEW V3 AS SELECT ID, S FROM T1", "ALTER VIEW V3 SET COMMENT = 'set by alter'",
          "INSERT INTO T1 VALUES (2, 'b')"]
    yield {"kind": "history", "history": vc, "stride": 3 if tier == "quick" else 1, "offset": 1, "with_conn": False, "expect_rows": {"DB1.S1.T1": "(2, 'b')"},
           "expect_comments": [["S1", "T1", "first"], ["S1", "V1", "declared with the view"], ["S1", "V2", "commented later"], ["S1", "V3", "set by alter"]]}
    # a TRANSIENT table is a permanent table (no fail-safe period): it is there for the next process like any other
    tr = ["CREATE TABLE T1 (ID INT, S VARCHAR(10)) COMMENT = 'first'", "INSERT INTO T1 VALUES (1, 'a')",
          "CREATE TRANSIENT TABLE TR1 (ID INT, NOTE VARCHAR(9)) COMMENT = 'transient'", "INSERT INTO TR1 VALUES (5, 'kept')",
          "CREATE OR REPLACE TRANSIENT TABLE TR2 AS SELECT ID, NOTE FROM TR1", "INSERT INTO T1 VALUES (2, 'b')"]
    yield {"kind": "history", "history": tr, "stride": 3 if tier == "quick" else 1, "offset": 2, "with_conn": False,
           "expect_rows": {"DB1.S1.TR1": "(5, 'kept')", "DB1.S1.TR2": "(5, 'kept')", "DB1.S1.T1": "(2, 'b')"}}
    open_txn = ["CREATE TABLE T1 (ID INT, S VARCHAR(10)) COMMENT = 'first'", "INSERT INTO T1 VALUES (1, 'a'), (2, 'b')",
                "CREATE TABLE T2 (ID INT, NAME VARCHAR(20)) COMMENT = 'all orders'", "INSERT INTO T2 VALUES (1, 'x')", "BEGIN",
                "UPDATE T1 SET S = 'moved' WHERE ID = 1", "INSERT INTO T1 (ID, S) VALUES (500, 'tx')", "COMMENT ON TABLE T2 IS 'in txn'",
                "DROP TABLE T2", "CREATE TABLE T2 (ID INT, NAME VARCHAR(5))"]
    for wc in (True, False):
        yield {"kind": "history", "history": open_txn, "stride": 3 if tier == "quick" else 1, "offset": int(wc), "with_conn": wc}
    for i in range(n):
        yield {"kind": "history", "history": gen_history(r), "stride": 3 if tier == "quick" else 1, "offset": i % 3, "with_conn": i % 2 == 1}


# ---------------------------------------------------------------------------
# child side
# ---------------------------------------------------------------------------
def _journal(path: str, line: str) -> None:
    fd = os.open(path, os.O_WRONLY | os.O_CREAT | os.O_APPEND)
    os.write(fd, (line + "\n").encode())
    os.fsync(fd)
    os.close(fd)


def _observe_committed(fs: Any) -> dict:
    snap = core.snapshot(fs)
    keep = lambda k: k.split(".")[0] in DBS  # noqa: E731
    return {
        "dbs": [d for d in snap["dbs"] if d in DBS],
        "schemas": [list(s) for s in snap["schemas"] if s[0] in DBS and s[1] not in ("main", "information_schema")],
        "tables": [list(t) for t in snap["tables"] if t[0] in DBS],
        "views": [list(v) for v in snap["views"] if v[0] in DBS],
        "cols": {k: v for k, v in snap["cols"].items() if keep(k)},
        "rows": {k: v for k, v in snap["rows"].items() if keep(k)},
    }


def _child_run(case_dir: str, db_dir: str, history: list[str], mode: str, kill_at: int | None, phase: str | None, dry: bool, with_conn: bool = False) -> None:
    """Runs in a forked child.  mode: dry | kill | clean | body_exc | sys_exit | os_exit | sigterm"""
    import snowflake.connector

    import fakesnow

    jpath = os.path.join(case_dir, "journal")
    calls = {"n": 0}

    def hook(ph: str, t: Any, method: str, sql: Any) -> None:
        if method != "execute" or not calls.get("armed"):
            return
        if ph == "before":
            calls["n"] += 1
            if phase is not None and phase.startswith("during:") and calls["n"] == kill_at:
                # a kill that does not wait for the engine call to return: a timer thread delivers it after a short delay,
                # while the call (or whatever fakesnow does right after it) is in flight
                delay = float(phase.split(":")[1])

                def _later() -> None:
                    if delay:
                        time.sleep(delay)
                    os.kill(os.getpid(), signal.SIGKILL)

                import threading

                threading.Thread(target=_later, daemon=True).start()
                return
        if kill_at is not None and calls["n"] == kill_at and (ph == phase or (phase == "after" and ph == "error")):
            _journal(jpath, f"killing {ph} call {calls['n']}")
            os.kill(os.getpid(), signal.SIGKILL)

    tap.HOOK = hook
    states = []
    percall = []
    import contextlib

    with contextlib.ExitStack() as stack:
        stack.enter_context(fakesnow.patch(db_path=db_dir))
        conn = snowflake.connector.connect(database="db1", schema="s1")
        if with_conn:  # the connection as a context manager: leaving the block does not commit anything by itself
            stack.enter_context(conn)
        cur = conn.cursor()
        fs_root = tap.SHIM.roots[-1]

        class _FS:  # minimal handle for core.snapshot
            duck_conn = fs_root

        calls["armed"] = True
        if dry:
            states.append(_observe_committed(_FS))
        for i, stmt in enumerate(history):
            c0 = calls["n"]
            calls["armed"] = True
            if stmt.startswith("#EXECUTEMANY_FAILS"):
                # an executemany the application gets wrong in one of several ways; it catches the error and carries on
                how = stmt.split()[1]
                try:
                    if how == "arity":
                        cur.executemany("INSERT INTO T1 (ID, S) VALUES (%s, %s)", [(901, "a"), (902,)])
                    elif how == "syntax":
                        cur.executemany("INSERT INTO T1 (ID, S) VALUE (%s, %s)", [(903, "a"), (904, "b")])
                    elif how == "missing_table":
                        cur.executemany("INSERT INTO NO_SUCH_T18 (ID) VALUES (%s)", [(905,), (906,)])
                    else:
                        cur.executemany("INSERT INTO T1 (ID, S) VALUES (%s, %s)", [(907, "ok"), ("not a number", "x")])
                except Exception:  # noqa: BLE001
                    pass
            elif stmt.startswith("#TRY "):
                # a statement the application expects may fail: it catches whatever is raised and carries on
                try:
                    cur.execute(stmt[5:])
                except Exception:  # noqa: BLE001
                    pass
            elif stmt.startswith("#WRITE_PANDAS"):
                import pandas as pd

                import fakesnow.fakes as fakes

                _, tname, first, chunk = stmt.split()
                ids = list(range(int(first), int(first) + 6))
                fakes.write_pandas(conn, pd.DataFrame({"ID": ids, "S": [f"wp{i % 7}" for i in ids]}), tname, chunk_size=int(chunk))
            else:
                cur.execute(stmt)
            calls["armed"] = False
            _journal(jpath, f"ack {i}")
            if dry:
                states.append(_observe_committed(_FS))
                percall.append([c0, calls["n"]])
        if dry:
            with open(os.path.join(case_dir, "dry.json"), "w") as f:
                json.dump({"states": states, "percall": percall, "total_calls": calls["n"]}, f)
        if phase is not None and phase.startswith("during:"):
            time.sleep(10)  # the timer's kill is on its way
        if mode == "body_exc":
            raise RuntimeError("exception in the body")
        if mode == "sys_exit":
            sys.exit(3)
        if mode == "os_exit":
            os._exit(4)
        if mode == "sigterm":
            os.kill(os.getpid(), signal.SIGTERM)
            time.sleep(5)


def _child_recover(case_dir: str, db_dir: str, twice: bool) -> None:
    import fakesnow.instance as inst

    out: dict[str, Any] = {"errors": []}
    fs = inst.FakeSnow(db_path=db_dir)
    conns = {}
    for db in DBS:
        if db == "DB1" or os.path.exists(os.path.join(db_dir, f"{db}.db")):
            try:
                conns[db] = fs.connect(db, "S1") if db == "DB1" else fs.connect(db)
                if twice:
                    fs.connect(db, "S1") if db == "DB1" else fs.connect(db)
            except Exception as e:  # noqa: BLE001
                out["errors"].append(f"connect({db}): {type(e).__name__}: {e}"[:400])
    out["state"] = _observe_committed(fs)
    # through fakesnow itself: comments and text lengths as a client sees them
    meta = {}
    for db, c in conns.items():
        try:
            cur = c.cursor()
            meta[db] = {
                "comments": sorted(map(list, cur.execute(
                    f"SELECT table_schema, table_name, comment FROM {db}.information_schema.tables WHERE table_catalog = '{db}' "
                    "AND table_schema NOT IN ('information_schema', 'main') AND table_name NOT LIKE '_fs_%'").fetchall()), key=repr),
                "lengths": sorted(map(list, cur.execute(
                    f"SELECT table_schema, table_name, column_name, character_maximum_length FROM {db}.information_schema.columns "
                    f"WHERE table_catalog = '{db}' AND table_schema NOT IN ('information_schema', 'main') AND data_type = 'TEXT'").fetchall()), key=repr),
            }
        except Exception as e:  # noqa: BLE001
            out["errors"].append(f"metadata({db}): {type(e).__name__}: {e}"[:400])
    out["meta"] = meta
    with open(os.path.join(case_dir, "recovered.json"), "w") as f:
        json.dump(out, f)
    fs.duck_conn.close()


def _fork(fn: Any, *args: Any, timeout: float = 60.0) -> tuple[str, int]:
    """Run fn(*args) in a forked child.  Returns (how it ended, code/signal)."""
    sys.stdout.flush()
    sys.stderr.flush()
    pid = os.fork()
    if pid == 0:
        code = 0
        try:
            fn(*args)
        except SystemExit as e:
            code = e.code if isinstance(e.code, int) else 1
        except BaseException:  # noqa: BLE001
            code = 98
            try:
                with open(os.path.join(args[0], "child_error.txt"), "a") as f:
                    f.write(traceback.format_exc())
            except Exception:  # noqa: BLE001
                pass
        finally:
            sys.stdout.flush()
            sys.stderr.flush()
            os._exit(code)
    t0 = time.time()
    while True:
        wpid, status = os.waitpid(pid, os.WNOHANG)
        if wpid:
            if os.WIFSIGNALED(status):
                return "signal", os.WTERMSIG(status)
            return "exit", os.WEXITSTATUS(status)
        if time.time() - t0 > timeout:
            os.kill(pid, signal.SIGKILL)
            os.waitpid(pid, 0)
            return "timeout", 0
        time.sleep(0.002)


def _spawn_run(case_dir: str, db_dir: str, history: list[str], mode: str, with_conn: bool) -> int | None:
    """_child_run in a fresh interpreter that ends the way an application's interpreter ends.  Returns its exit status."""
    import subprocess

    here = os.path.dirname(os.path.dirname(os.path.dirname(os.path.abspath(__file__))))
    code = ("import sys, json\nfrom fsverif.props import c18\n"
            "a = json.loads(sys.argv[1])\nc18._child_run(a[0], a[1], a[2], a[3], None, None, False, a[4])\n")
    try:
        pr = subprocess.run([sys.executable, "-B", "-c", code, json.dumps([case_dir, db_dir, history, mode, with_conn])],
                            capture_output=True, text=True, timeout=180, cwd=case_dir,
                            env={**os.environ, "PYTHONPATH": here, "PYTHONHASHSEED": "0"})
    except subprocess.TimeoutExpired:
        raise core.Inconclusive("fresh-interpreter watchdog") from None
    with open(os.path.join(case_dir, "stderr.txt"), "w") as f:
        f.write(pr.stderr[-2000:])
    return pr.returncode


# ---------------------------------------------------------------------------
# parent side
# ---------------------------------------------------------------------------
def setup_worker(env: core.Env) -> None:
    assert not tap.SHIM.roots, "C18 worker must not open an engine instance before forking"


def _acked(case_dir: str) -> int:
    last = -1
    try:
        with open(os.path.join(case_dir, "journal")) as f:
            for line in f:
                if line.startswith("ack "):
                    last = int(line.split()[1])
    except FileNotFoundError:
        pass
    return last


def _meta_of(state: dict) -> dict:
    """Comments and text lengths implied by a committed raw state (from the side tables)."""
    out = {}
    for db in DBS:
        tkey = f"{db}.information_schema._fs_tables_ext"
        if tkey not in state["rows"]:
            continue
        out[db] = True
    return out


def run_case(case: dict, env: core.Env) -> None:
    if case["kind"] == "in_memory":
        return _in_memory(case, env)
    if case["kind"] == "two_sessions":
        return _two_sessions(case, env)
    if case["kind"] == "two_blocks":
        return _two_blocks(case, env)
    history = case["history"]
    base = tempfile.mkdtemp(prefix="fsverif-c18-")
    try:
        # ---- dry run: expected committed state after every statement + engine-call numbering
        d = os.path.join(base, "dry")
        os.makedirs(os.path.join(d, "db"))
        how, code = _fork(_child_run, d, os.path.join(d, "db"), history, "dry", None, None, True, case.get("with_conn", False))
        if (how, code) != ("exit", 0):
            err = ""
            try:
                err = open(os.path.join(d, "child_error.txt")).read()[-600:]
            except OSError:
                pass
            if how == "timeout":
                raise core.Inconclusive("dry run watchdog")
            env.witness("C18/history-rejected-without-fault", f"{how} {code}: {err} history={history}")
            return
        dry = json.load(open(os.path.join(d, "dry.json")))
        states, percall, total = dry["states"], dry["percall"], dry["total_calls"]
        env.cover("history_calls", str(total // 10 * 10))
        env.count("engine_calls_enumerated_from_dry_runs", total)

        def check(tag: str, fault: str, case_dir: str, twice: bool = False, must_be: int | None = None) -> None:
            acked = _acked(case_dir)
            how2, code2 = _fork(_child_recover, case_dir, os.path.join(case_dir, "db"), twice)
            env.count("cmp_reopen_ok")
            if how2 == "timeout":
                raise core.Inconclusive("recovery watchdog")
            if (how2, code2) != ("exit", 0) or not os.path.exists(os.path.join(case_dir, "recovered.json")):
                err = ""
                try:
                    err = open(os.path.join(case_dir, "child_error.txt")).read()[-500:]
                except OSError:
                    pass
                env.witness(f"C18/reopen-failed/{tag}", f"{fault}: recovery child {how2} {code2}: {err}")
                return
            rec = json.load(open(os.path.join(case_dir, "recovered.json")))
            if rec["errors"]:
                if tag == "sigkill-during-engine-call":
                    # keyed by the statement that was in flight and by the kind of error, so that a listed finding stays narrow
                    nx = history[acked + 1] if acked + 1 < len(history) else "<end>"
                    w = nx.split()
                    nk = w[0] + ("-" + w[1] if len(w) > 1 and w[0] in ("CREATE", "COMMENT", "ALTER") else "")
                    e0 = rec["errors"][0]
                    ek = e0.split(":")[1].strip() + (":file-is-not-a-valid-database" if "not a valid DuckDB database file" in e0 else "")
                    env.witness(f"C18/reopen-errors/{tag}/in-flight:{nk}/{ek}", f"{fault}: {rec['errors']}")
                    return
                env.witness(f"C18/reopen-errors/{tag}", f"{fault}: {rec['errors']}")
                return
            env.count("cmp_recovered_state")
            got = rec["state"]
            k = acked + 1  # states[k] = committed state after statement index k-1
            cands = [states[k]] + ([states[k + 1]] if k + 1 < len(states) else [])
            if must_be is not None:
                cands = [states[must_be]]
            if got in cands:
                # an absolute expectation of the fixed histories: what a client reads after the whole history ran
                if case.get("expect_rows") and must_be == len(history):
                    for tbl, row in case["expect_rows"].items():
                        if row not in got["rows"].get(tbl, {}):
                            env.witness(f"C18/acknowledged-state-lost/absolute/{tag}", f"{fault}: a later process does not find {row} in {tbl}: {sorted(got['rows'].get(tbl, {}))}")
                            return
                if case.get("expect_exact") and must_be == len(history):
                    for tbl, rows_ in case["expect_exact"].items():
                        if sorted(got["rows"].get(tbl, {})) != sorted(rows_):
                            env.witness(f"C18/never-committed-rows-present/absolute/{tag}", f"{fault}: a later process reads {tbl} = {sorted(got['rows'].get(tbl, {}))} expected {sorted(rows_)}")
                            return
                    for tbl in case.get("expect_no_table", []):
                        if tbl in got["rows"]:
                            env.witness(f"C18/never-committed-table-present/absolute/{tag}", f"{fault}: a later process finds {tbl}")
                            return
                if case.get("expect_comments") and must_be == len(history):
                    seen = rec.get("meta", {}).get("DB1", {}).get("comments")
                    if seen != case["expect_comments"]:
                        env.witness(f"C18/never-committed-metadata-present/{tag}", f"{fault}: table comments read by a later process {seen} expected {case['expect_comments']}")
                return
            # classify the difference against the acknowledged state
            exp = states[k] if must_be is None else states[must_be]
            nxt = history[k] if k < len(history) else "<end>"
            nxt = nxt.replace("CREATE TRANSIENT TABLE", "CREATE TABLE")  # the same statement as far as its steps go
            kind = nxt.split()[0] + ("-" + nxt.split()[1] if len(nxt.split()) > 1 and nxt.split()[0] in ("CREATE", "COMMENT", "ALTER") else "")
            diffs = core.snap_diff({**exp, "dbs": exp["dbs"], "schemas": [tuple(x) for x in exp["schemas"]], "tables": [tuple(x) for x in exp["tables"]], "views": [tuple(x) for x in exp["views"]]},
                                   {**got, "schemas": [tuple(x) for x in got["schemas"]], "tables": [tuple(x) for x in got["tables"]], "views": [tuple(x) for x in got["views"]]})
            lost = any(k2 in exp["rows"] and k2 not in got["rows"] for k2 in exp["rows"])
            side = all(("_fs_" in dd) for dd in diffs) and bool(diffs)
            del side
            if lost:
                env.witness(f"C18/acknowledged-state-lost/{tag}", f"{fault}; acked={acked}: {diffs}"[:1500])
            elif tag.startswith("sigkill"):
                env.witness(f"C18/in-flight-statement-partially-applied/{kind}", f"{fault}; acked={acked}; next statement {nxt!r}: {diffs}"[:1500])
            else:
                env.witness(f"C18/unexpected-state/{tag}", f"{fault}; acked={acked}: {diffs}"[:1500])

        # ---- exit modes (whole history runs, then the process ends in that mode)
        for mode in ("clean", "body_exc", "sys_exit", "os_exit", "sigterm"):
            cd = os.path.join(base, mode)
            os.makedirs(os.path.join(cd, "db"))
            how, code = _fork(_child_run, cd, os.path.join(cd, "db"), history, mode, None, None, False, case.get("with_conn", False))
            env.count("exit_modes_run")
            env.count("fault_runs")
            if how == "timeout":
                raise core.Inconclusive("exit-mode watchdog")
            check(f"exit-mode:{mode}", f"{mode} -> {how} {code}", cd, twice=(mode == "clean"), must_be=len(history))
            env.nontrivial((history, mode))
            shutil.rmtree(cd, ignore_errors=True)

        # ---- the same exit modes in a real interpreter (no fork, no os._exit at the end): module teardown, atexit handlers and the
        # garbage collection of whatever is still referenced run as they do for an application
        for mode in ("clean", "body_exc", "sys_exit"):
            cd = os.path.join(base, "interp-" + mode)
            os.makedirs(os.path.join(cd, "db"))
            rc = _spawn_run(cd, os.path.join(cd, "db"), history, mode, case.get("with_conn", False))
            env.count("exit_modes_run_in_a_fresh_interpreter")
            env.count("fault_runs")
            want_rc = {"clean": 0, "body_exc": 1, "sys_exit": 3}[mode]
            if rc != want_rc or _acked(cd) != len(history) - 1:
                err = ""
                try:
                    err = open(os.path.join(cd, "stderr.txt")).read()[-500:]
                except OSError:
                    pass
                env.witness(f"C18/fresh-interpreter/child-ended-unexpectedly/{mode}", f"rc={rc} expected {want_rc}; acked={_acked(cd)} of {len(history)}: {err}")
            else:
                check(f"exit-mode:{mode}", f"{mode} in a fresh interpreter -> rc {rc}", cd, must_be=len(history))
                env.nontrivial((history, "interp", mode))
            shutil.rmtree(cd, ignore_errors=True)

        # ---- SIGKILL before / after engine call j, and from a timer while call j is in flight
        js = [j for j in range(1, total + 1) if (j % case["stride"]) == case["offset"] % case["stride"]]
        for j in js:
            for phase in ("before", "after", "during:" + ("0", "0.0003", "0.002")[j % 3]):
                cd = os.path.join(base, f"k{j}{phase}")
                os.makedirs(os.path.join(cd, "db"))
                how, code = _fork(_child_run, cd, os.path.join(cd, "db"), history, "kill", j, phase, False, case.get("with_conn", False))
                env.count("fault_runs")
                if how == "timeout":
                    raise core.Inconclusive("kill-run watchdog")
                if (how, code) == ("signal", signal.SIGKILL):
                    env.count("kills_delivered")
                    # which statement was in flight
                    si = next((i for i, (a, b) in enumerate(percall) if a < j <= b), None)
                    stmt_kind = "?" if si is None else history[si].split()[0]
                    env.cover("kill_in_statement", stmt_kind)
                    env.cover("kill_phase", phase.split(":")[0])
                    check(f"sigkill-{phase.split(':')[0]}-engine-call", f"SIGKILL {phase} engine call {j}/{total} (statement {si}: {history[si] if si is not None else '?'})", cd)
                    env.nontrivial((history, j, phase))
                else:
                    env.witness("C18/kill-not-delivered", f"child ended {how} {code} for kill {phase} call {j}")
                shutil.rmtree(cd, ignore_errors=True)
    finally:
        shutil.rmtree(base, ignore_errors=True)


# ---------------------------------------------------------------------------
def _child_two_sessions(case_dir: str, db_dir: str, order: list, mode: str) -> None:
    """Two sessions of one patch(): overlapping transactions insert a common PRIMARY KEY value; what each was told is journaled."""
    import snowflake.connector

    import fakesnow

    with fakesnow.patch(db_path=db_dir):
        conns = [snowflake.connector.connect(database="db1", schema="s1") for _ in range(2)]
        curs = [c.cursor() for c in conns]
        curs[0].execute("CREATE TABLE ACCT (ID INT PRIMARY KEY, WHO INT)")
        told: list[Any] = [[], []]
        steps = [["BEGIN", "INSERT INTO ACCT VALUES (1, {i}), ({a}, {i}), ({b}, {i})", "COMMIT"] for _ in range(2)]
        pos = [0, 0]
        failed = [False, False]
        for i in order:
            if failed[i]:
                continue
            stmt = steps[i][pos[i]].format(i=i, a=10 + i, b=20 + i)
            pos[i] += 1
            try:
                curs[i].execute(stmt)
                told[i].append("ok")
            except Exception as e:  # noqa: BLE001
                told[i].append(f"failed: {type(e).__name__}")
                failed[i] = True
                try:
                    curs[i].execute("ROLLBACK")
                except Exception:  # noqa: BLE001
                    pass
        with open(os.path.join(case_dir, "told.json"), "w") as f:
            json.dump(told, f)
            f.flush()
            os.fsync(f.fileno())
        if mode == "os_exit":
            os._exit(4)


_TWO_BLOCKS_SCRIPT = '''
import os, sys
import snowflake.connector
import fakesnow
db_dir, second, keep, done = sys.argv[1:5]
kept = []
def first_block():
    with fakesnow.patch(db_path=db_dir):
        conn = snowflake.connector.connect(database="db1", schema="s1")
        cur = conn.cursor()
        cur.execute("CREATE TABLE BATCHES (ID INT, S VARCHAR(10)) COMMENT = 'batches'")
        cur.execute("INSERT INTO BATCHES VALUES (1, 'first')")
        if keep == "connection-kept":
            kept.append(conn)
        raise RuntimeError("the first block fails after committing")
def second_block():
    with fakesnow.patch(db_path=db_dir):
        conn2 = snowflake.connector.connect(database="db1", schema="s1")
        cur2 = conn2.cursor()
        cur2.execute("INSERT INTO BATCHES VALUES (2, 'second')")
        if second == "new_table":
            cur2.execute("CREATE TABLE AUDIT (ID INT, NOTE VARCHAR(5)) COMMENT = 'audit'")
            cur2.execute("INSERT INTO AUDIT VALUES (1, 'ok')")
try:
    first_block()
except RuntimeError as e:
    if keep == "exception-kept":
        kept.append(e)          # its traceback keeps the first block's frames (and objects) alive
        second_block()
    elif keep == "retry-in-handler":
        second_block()          # the error is handled by loading the next batch, from inside the except block
if keep not in ("exception-kept", "retry-in-handler"):
    second_block()
open(done, "w").write("done")
# the interpreter shuts down normally, with whatever it kept still referenced
'''


def _two_blocks(case: dict, env: core.Env) -> None:
    base = tempfile.mkdtemp(prefix="fsverif-c18b-")
    try:
        import subprocess

        os.makedirs(os.path.join(base, "db"))
        # a real interpreter (not a fork that ends with os._exit): objects the script kept die at a normal shutdown
        repo = os.environ.get("FSVERIF_REPO", "/repo")
        try:
            pr = subprocess.run([sys.executable, "-B", "-c", _TWO_BLOCKS_SCRIPT, os.path.join(base, "db"), case["second"], case["keep"], os.path.join(base, "done")],
                                capture_output=True, text=True, timeout=120, env={**os.environ, "PYTHONPATH": repo}, cwd=base)
        except subprocess.TimeoutExpired:
            raise core.Inconclusive("two-block watchdog") from None
        env.count("fault_runs")
        if pr.returncode != 0 or not os.path.exists(os.path.join(base, "done")):
            env.witness(f"C18/two-blocks/child-failed/{case['keep']}", f"rc={pr.returncode}: {pr.stderr[-400:]}")
            return
        how2, code2 = _fork(_child_recover, base, os.path.join(base, "db"), False)
        env.count("cmp_reopen_ok")
        if (how2, code2) != ("exit", 0):
            env.witness("C18/reopen-failed/two-blocks", f"recovery child {how2} {code2}")
            return
        rec = json.load(open(os.path.join(base, "recovered.json")))
        env.count("cmp_recovered_state")
        rows = rec["state"]["rows"]
        got_b = sorted(rows.get("DB1.S1.BATCHES", {}))
        want_b = ["(1, 'first')", "(2, 'second')"]
        if got_b != want_b:
            env.witness(f"C18/two-blocks/committed-rows-lost/{case['keep']}", f"a later process finds BATCHES = {got_b} expected {want_b}")
        if case["second"] == "new_table" and sorted(rows.get("DB1.S1.AUDIT", {})) != ["(1, 'ok')"]:
            env.witness(f"C18/two-blocks/committed-table-lost/{case['keep']}", f"a later process finds AUDIT = {rows.get('DB1.S1.AUDIT')}")
        env.nontrivial(("two_blocks", case["second"], case["keep"]))
    finally:
        shutil.rmtree(base, ignore_errors=True)


def _two_sessions(case: dict, env: core.Env) -> None:
    import itertools

    base = tempfile.mkdtemp(prefix="fsverif-c18t-")
    try:
        orders = sorted(set(itertools.permutations([0, 0, 0, 1, 1, 1])))
        for n, order in enumerate(orders):
            mode = "clean" if n % 2 == 0 else "os_exit"
            cd = os.path.join(base, f"o{n}")
            os.makedirs(os.path.join(cd, "db"))
            how, code = _fork(_child_two_sessions, cd, os.path.join(cd, "db"), list(order), mode)
            env.count("fault_runs")
            if how == "timeout":
                raise core.Inconclusive("two-session watchdog")
            if not os.path.exists(os.path.join(cd, "told.json")):
                err = ""
                try:
                    err = open(os.path.join(cd, "child_error.txt")).read()[-400:]
                except OSError:
                    pass
                env.witness("C18/two-sessions/child-failed", f"{how} {code} order={order}: {err}")
                return
            told = json.load(open(os.path.join(cd, "told.json")))
            how2, code2 = _fork(_child_recover, cd, os.path.join(cd, "db"), False)
            env.count("cmp_reopen_ok")
            if (how2, code2) != ("exit", 0):
                env.witness("C18/reopen-failed/two-sessions", f"recovery child {how2} {code2} order={order}")
                return
            rec = json.load(open(os.path.join(cd, "recovered.json")))
            rows = rec["state"]["rows"].get("DB1.S1.ACCT", {})
            env.count("cmp_recovered_state")
            for i in range(2):
                mine = [k for k in rows if k.endswith(f", {i})")]
                all_ok = told[i] == ["ok", "ok", "ok"]
                if all_ok and len(mine) != 3:
                    env.witness("C18/two-sessions/told-committed-but-rows-absent-after-restart",
                                f"order={order} exit={mode}: session {i} was told {told[i]} but a later process finds {mine} of its rows (all: {sorted(rows)})")
                if not all_ok and mine:
                    env.witness("C18/two-sessions/told-failed-but-rows-present-after-restart", f"order={order} exit={mode}: session {i} told {told[i]}, later process finds {mine}")
            env.nontrivial(("two_sessions", order, mode))
            shutil.rmtree(cd, ignore_errors=True)
    finally:
        shutil.rmtree(base, ignore_errors=True)


def _child_in_memory(case_dir: str, seed: int) -> None:
    import fakesnow.instance as inst

    opened: list[str] = []

    def audit(event: str, args: tuple) -> None:
        if event == "open" and isinstance(args[0], str) and len(args) > 1 and isinstance(args[1], str) and any(m in args[1] for m in "wax+"):
            opened.append(args[0])

    sys.addaudithook(audit)
    cwd = os.path.join(case_dir, "cwd")
    os.makedirs(cwd)
    os.chdir(cwd)
    os.environ["TMPDIR"] = cwd
    a, b = inst.FakeSnow(), inst.FakeSnow()
    ca, cb = a.connect("db1", "s1"), b.connect("db1", "s1")
    ca.cursor().execute("CREATE TABLE ONLY_IN_A (ID INT, S VARCHAR(5)) COMMENT = 'a'")
    ca.cursor().execute("INSERT INTO ONLY_IN_A VALUES (1, 'x')")
    ca.cursor().execute("CREATE DATABASE DBA")
    res: dict[str, Any] = {"files": sorted(os.listdir(cwd)), "opened_for_write": opened}
    try:
        cb.cursor().execute("SELECT * FROM ONLY_IN_A")
        res["b_sees_a_table"] = True
    except Exception:  # noqa: BLE001
        res["b_sees_a_table"] = False
    res["b_dbs"] = [r[0] for r in cb.cursor().execute("SELECT database_name FROM information_schema.databases").fetchall()]
    with open(os.path.join(case_dir, "mem.json"), "w") as f:
        json.dump(res, f)


def _in_memory(case: dict, env: core.Env) -> None:
    base = tempfile.mkdtemp(prefix="fsverif-c18m-")
    try:
        how, code = _fork(_child_in_memory, base, case["seed"])
        env.count("cmp_in_memory_no_files")
        if how == "timeout":
            raise core.Inconclusive("in-memory watchdog")
        if (how, code) != ("exit", 0):
            err = ""
            try:
                err = open(os.path.join(base, "child_error.txt")).read()[-500:]
            except OSError:
                pass
            env.witness("C18/in-memory/child-failed", f"{how} {code}: {err}")
            return
        res = json.load(open(os.path.join(base, "mem.json")))
        written = [p for p in res["opened_for_write"] if not p.startswith(base) or "mem.json" not in p]
        written = [p for p in written if not p.endswith("mem.json")]
        if res["files"]:
            env.witness("C18/in-memory/files-created", f"{res['files']}")
        if written:
            env.witness("C18/in-memory/opened-for-writing", f"{written}")
        if res["b_sees_a_table"] or "DBA" in res["b_dbs"]:
            env.witness("C18/in-memory/instances-share-objects", f"{res}")
        env.nontrivial(("mem", case["seed"]))
    finally:
        shutil.rmtree(base, ignore_errors=True)
