"""C06 cursor.description matches the result of every executed statement.

Monitors: (A) after every zoo statement, at a chosen point of the fetch sequence, description
must be readable, agree with DictCursor keys and with the Python types of the fetched values,
and reading it must not change pending rows, data or session; (B) describe(q) == description
after executing q and executes nothing; (C) declared column types vs description of SELECT *;
(D) an expression-form sweep for type agreement."""

from __future__ import annotations

import datetime
import decimal
import random
from typing import Any

from fsverif import core, zoo

ID = "C06"
LEVEL = "exploration"
BUDGET = {"quick": 75, "thorough": 600}
RULE = (
    "cases: (A) zoo template x cursor kind x fetch point {before any fetch, after one row, after all rows} x with/without bound "
    "parameter variants; (B) describe() of query templates and of visible-effect statements; (C) every declared column type of "
    "a sweep table; (D) expression forms (casts, arithmetic, aggregates, CASE, JSON paths, ARRAY_SIZE, array literals, dates). "
    "Non-trivial = description was read after a successful execute and at least one comparison was evaluated; distinct = "
    "distinct (part, statement, cursor kind, fetch point)."
)
REQUIRED = ["cmp_readable", "cmp_names", "cmp_types", "cmp_no_side_effect", "cmp_pending_rows", "cmp_describe", "cmp_declared"]
ASSUMPTIONS = [
    "type agreement is asserted between description and fetched values (FIXED scale 0 <-> int, FIXED scale>0 <-> Decimal with "
    "that scale, REAL <-> float, TEXT <-> str, DATE, TIME, TIMESTAMP_NTZ <-> naive, TIMESTAMP_TZ <-> aware, BINARY <-> bytes, "
    "VARIANT/OBJECT/ARRAY <-> JSON str, BOOLEAN <-> bool); which Snowflake type an expression has is only asserted for "
    "declared columns",
]

FIXED, REAL, TEXT, DATE, TIMESTAMP, VARIANT, TS_LTZ, TS_TZ, TS_NTZ, OBJECT, ARRAY, BINARY, TIME, BOOLEAN = range(14)
TNAME = {0: "FIXED", 1: "REAL", 2: "TEXT", 3: "DATE", 4: "TIMESTAMP", 5: "VARIANT", 6: "TIMESTAMP_LTZ", 7: "TIMESTAMP_TZ",
         8: "TIMESTAMP_NTZ", 9: "OBJECT", 10: "ARRAY", 11: "BINARY", 12: "TIME", 13: "BOOLEAN"}

EXPRS = [
    "1", "1 + 1", "2 * 3", "7 / 2", "7 % 3", "-5", "1.5", "1.25 + 2", "1.5 * 2", "1e0", "1::float", "1::float + 1", "'a'", "'a' || 'b'",
    "true", "not true", "1 = 1", "null", "null::int", "null::varchar", "1::int", "1::bigint", "1::number(10,2)", "1.239::number(10,2)",
    "1::number(38,0)", "1::number(5,0)", "'1.5'::float", "'12'::int", "1::varchar", "1.5::varchar", "'2020-01-02'::date",
    "'2020-01-02 03:04:05'::timestamp_ntz", "'2020-01-02 03:04:05'::timestamp", "'2020-01-02 03:04:05 +00:00'::timestamp_tz", "'01:02:03'::time",
    "current_date", "current_timestamp", "count(*)", "sum(1)", "sum(1.5)", "avg(2)", "min(1)", "max('a')", "count(distinct 1)",
    "case when 1 = 1 then 1 else 2 end", "case when 1 = 1 then 'a' end", "coalesce(null, 1)", "coalesce(null, 'x')", "nullif(1, 1)",
    "upper('a')", "length('abc')", "abs(-1)", "round(1.256, 2)", "floor(1.5)", "ceil(1.5)", "sqrt(4)", "power(2, 3)",
    "parse_json('{\"a\": 1}')", "parse_json('{\"a\": 1}'):a", "parse_json('{\"a\": \"s\"}'):a::varchar", "parse_json('{\"a\": 1}'):a::int",
    "parse_json('[1,2]')", "array_size(parse_json('[1,2]'))", "[1, 2, 3]", "['a', 'b']", "array_construct(1, 2)", "object_construct('k', 1)",
    "to_date('2020-01-02')", "to_timestamp('2020-01-02 03:04:05')", "to_timestamp(0)", "to_timestamp_ntz('2020-01-02 03:04:05')",
    "to_decimal('1.5', 10, 2)", "to_number('12')", "try_to_decimal('x', 10, 2)", "dateadd(day, 1, '2020-01-02'::date)",
    "dateadd(hour, 1, '2020-01-02'::timestamp_ntz)", "datediff(day, '2020-01-01'::date, '2020-01-05'::date)", "sha2('a')",
    "regexp_replace('abc', 'b', 'x')", "regexp_substr('abc', 'b')", "split('a,b', ',')", "trim(' a ')", "equal_null(1, null)", "random(1)",
    "to_binary('61', 'HEX')", "hex_decode_binary('61')", "'abc'::binary", "row_number() over (order by 1)", "sum(1) over ()",
]

_PLAIN_EXPRS = [e for e in EXPRS if not any(k in e for k in ("count(", "sum(", "avg(", "min(", "max(", " over ", "random(", "current_"))]

DECLARED = [
    ("INT", FIXED, 38, 0), ("INTEGER", FIXED, 38, 0), ("BIGINT", FIXED, 38, 0), ("SMALLINT", FIXED, 38, 0), ("NUMBER", FIXED, 38, 0),
    ("NUMBER(10,2)", FIXED, 10, 2), ("NUMBER(38,10)", FIXED, 38, 10), ("DECIMAL(12,3)", FIXED, 12, 3), ("NUMERIC(5,1)", FIXED, 5, 1),
    ("NUMBER(9,0)", FIXED, 9, 0), ("FLOAT", REAL, None, None), ("DOUBLE", REAL, None, None), ("REAL", REAL, None, None),
    ("VARCHAR", TEXT, None, None), ("VARCHAR(20)", TEXT, None, None), ("STRING", TEXT, None, None), ("TEXT", TEXT, None, None),
    ("BOOLEAN", BOOLEAN, None, None), ("DATE", DATE, None, None), ("TIME", TIME, None, None), ("TIMESTAMP_NTZ", TS_NTZ, None, None),
    ("DATETIME", TS_NTZ, None, None), ("TIMESTAMP", TS_NTZ, None, None), ("TIMESTAMP_TZ", TS_TZ, None, None), ("BINARY", BINARY, None, None),
    ("VARIANT", VARIANT, None, None), ("OBJECT", (VARIANT, OBJECT), None, None), ("ARRAY", (VARIANT, ARRAY), None, None),
    # the same types spelled with a fractional seconds precision (what DESCRIBE TABLE and GET_DDL print)
    ("TIMESTAMP_TZ(9)", TS_TZ, None, None), ("TIMESTAMP_TZ(3)", TS_TZ, None, None), ("TIMESTAMPTZ(6)", TS_TZ, None, None),
    ("TIMESTAMP_NTZ(9)", TS_NTZ, None, None), ("TIMESTAMP_NTZ(3)", TS_NTZ, None, None), ("TIMESTAMPNTZ(6)", TS_NTZ, None, None),
    ("TIMESTAMP(9)", TS_NTZ, None, None), ("TIMESTAMP(3)", TS_NTZ, None, None), ("TIMESTAMP(0)", TS_NTZ, None, None),
    ("DATETIME(3)", TS_NTZ, None, None), ("DATETIME(9)", TS_NTZ, None, None), ("TIME(9)", TIME, None, None), ("TIME(3)", TIME, None, None),
    ("VARCHAR(16777216)", TEXT, None, None), ("CHAR(3)", TEXT, None, None), ("NUMBER(38,0)", FIXED, 38, 0), ("DECIMAL", FIXED, 38, 0),
]


def gen_cases(tier: str, seed: int):
    r = random.Random(f"{seed}:C06")
    for z in zoo.ZOO:
        if z["fails"]:
            continue
        for use_dict in (False, True):
            for point in (0, 1, "all"):
                if tier == "quick" and use_dict and point == 1:
                    continue
                yield {"part": "A", "tag": z["tag"], "dict": use_dict, "point": point}
    for z in zoo.ZOO:
        if not z["fails"] and not z["mutates"]:
            yield {"part": "B", "tag": z["tag"]}
    for sql in ("insert into orders (id) values (4242)", "delete from orders", "update people set age = 0",
                "create table made_by_describe (id int)", "select random(42) as r", "select id from people order by id"):
        yield {"part": "B2", "sql": sql}
    for decl in DECLARED:
        yield {"part": "C", "decl": list(decl)}
    for e in EXPRS:
        yield {"part": "D", "expr": e, "ctx": "bare"}
        if tier == "thorough" or r.random() < 0.3:
            yield {"part": "D", "expr": e, "ctx": "from"}
    # the same statement text executed again on the same cursor after the result shape changed
    for scen in ("replace_table", "alter_add", "alter_drop", "use_schema", "qmark_types", "view_replaced", "other_cursor_replaces",
                 "txn_replace_table", "txn_alter_add", "txn_alter_drop", "txn_alter_rename", "txn_view_replaced"):
        for read_between in (True, False):
            yield {"part": "S", "scenario": scen, "read_between": read_between}
    for prev in ("none", "select", "update", "fetched"):
        for style in ("pyformat", "qmark"):
            yield {"part": "N", "prev": prev, "style": style}
    for q in ("select a, random(99) as r from people2", "select random(7)", "select id from people sample (50) seed (3)"):
        yield {"part": "B3", "sql": q}
    # composed queries: several expressions / table columns with aliases, wrapped in subquery / CTE / UNION ALL / empty results
    for _ in range(250 if tier == "quick" else 6000):
        k = r.randint(1, 5)
        items = []
        for j in range(k):
            if r.random() < 0.25:
                items.append(["col", r.choice(["ID", "NAME", "AGE", "SCORE", "id", "Name"])])
            else:
                items.append(["expr", r.choice(_PLAIN_EXPRS)])
        aliases = [r.choice(["X", "y", "Col1", '"q n"', '"lower"', "ID", "X", None]) for _ in range(k)]
        yield {"part": "R", "items": items, "aliases": aliases, "from": r.random() < 0.5 or any(i[0] == "col" for i in items),
               "wrap": r.choice(["none", "none", "subquery", "cte", "union_all", "limit0", "where_false", "order_limit"])}
    # parametrised statements: description after bound-parameter execution
    for style in ("pyformat", "qmark"):
        for sql in ("select {p} as x", "insert into orders (id, note) values ({p}, {p})", "select id from people where id = {p}",
                    "update people set age = {p} where id = {p}", "delete from orders where id = {p}"):
            yield {"part": "P", "style": style, "sql": sql}


_state: dict[str, Any] = {}


def setup_worker(env: core.Env) -> None:
    _state["ro"] = None


def _fresh() -> tuple[Any, Any]:
    fs = core.new_fs()
    return fs, zoo.build_fixture(fs)


def _agree(v: Any, md: Any) -> str | None:
    """None if value and metadata agree, else a short discrepancy label."""
    tc = md.type_code
    if v is None:
        return None
    if isinstance(v, bool):
        return None if tc == BOOLEAN else f"bool-vs-{TNAME.get(tc, tc)}"
    if isinstance(v, int):
        return None if (tc == FIXED and (md.scale or 0) == 0) else f"int-vs-{TNAME.get(tc, tc)}(scale={md.scale})"
    if isinstance(v, decimal.Decimal):
        if tc != FIXED:
            return f"Decimal-vs-{TNAME.get(tc, tc)}"
        if not md.scale:
            return "Decimal-vs-FIXED(scale=0)"
        return None if -v.as_tuple().exponent <= md.scale else f"Decimal-scale-{-v.as_tuple().exponent}-vs-FIXED(scale={md.scale})"
    if isinstance(v, float):
        return None if tc == REAL else f"float-vs-{TNAME.get(tc, tc)}"
    if isinstance(v, str):
        return None if tc in (TEXT, VARIANT, OBJECT, ARRAY) else f"str-vs-{TNAME.get(tc, tc)}"
    if isinstance(v, datetime.datetime):
        if v.tzinfo is None:
            return None if tc == TS_NTZ else f"naive-datetime-vs-{TNAME.get(tc, tc)}"
        return None if tc in (TS_TZ, TS_LTZ) else f"aware-datetime-vs-{TNAME.get(tc, tc)}"
    if isinstance(v, datetime.date):
        return None if tc == DATE else f"date-vs-{TNAME.get(tc, tc)}"
    if isinstance(v, datetime.time):
        return None if tc == TIME else f"time-vs-{TNAME.get(tc, tc)}"
    if isinstance(v, (bytes, bytearray)):
        return None if tc == BINARY else f"bytes-vs-{TNAME.get(tc, tc)}"
    return f"{type(v).__name__}-unexpected-python-type-vs-{TNAME.get(tc, tc)}"


def _raise_key(exc: dict, where: str) -> str:
    """Mechanism key of a failing description read: by exception class and, for unmapped engine types, the type family."""
    if exc["cls"] == "NotImplementedError" and "for column type" in exc["msg"]:
        t = exc["msg"].split("for column type", 1)[1].strip()
        fam = "LIST" if t.endswith("[]") else "STRUCT" if t.startswith("STRUCT") else "MAP" if t.startswith("MAP") else t.split("(")[0]
        return f"C06/description-raises/unmapped-engine-type:{fam}"
    return f"C06/description-raises/{where}/{exc['cls']}"


def _check_desc(env: core.Env, where: str, sql: str, desc: list, rows: list, use_dict: bool) -> None:
    """names vs dict keys / widths, and type agreement with every non-NULL fetched value."""
    env.count("cmp_names")
    names = [d.name for d in desc]
    if rows:
        if use_dict:
            keys = list(rows[0].keys())
            if len(set(names)) == len(names) and keys != names:
                env.witness(f"C06/names-vs-dict-keys/{where}", f"{sql!r}: description {names} DictCursor keys {keys}")
                return
            vals = [list(r.values()) for r in rows] if len(set(names)) == len(names) else []
        else:
            if any(len(r) != len(names) for r in rows):
                env.witness(f"C06/entries-vs-columns/{where}", f"{sql!r}: {len(names)} description entries, row width {len(rows[0])}")
                return
            vals = [list(r) for r in rows]
        env.count("cmp_types")
        for row in vals:
            for v, md in zip(row, desc):
                bad = _agree(v, md)
                if bad:
                    env.witness(f"C06/type-disagrees/{bad}", f"{sql!r}: column {md.name} value {v!r} metadata {tuple(md)}")
                    return


def run_case(case: dict, env: core.Env) -> None:
    part = case["part"]
    env.cover("part", part)
    if part == "A":
        return _part_a(case, env)
    if part == "B":
        return _part_b(case, env)
    if part == "B2":
        return _part_b2(case, env)
    if part == "C":
        return _part_c(case, env)
    if part == "D":
        return _part_d(case, env)
    if part == "S":
        return _part_s(case, env)
    if part == "B3":
        return _part_b3(case, env)
    if part == "N":
        return _part_n(case, env)
    if part == "R":
        return _part_r(case, env)
    return _part_p(case, env)


def _shared() -> tuple[Any, Any]:
    if _state["ro"] is None:
        _state["ro"] = _fresh()
    return _state["ro"]


def _part_a(case: dict, env: core.Env) -> None:
    z = zoo.BY_TAG[case["tag"]]
    use_dict, point = case["dict"], case["point"]
    stmts = [zoo.render(s) for s in z["stmts"]]
    sql = stmts[-1]
    if z["mutates"]:
        fs, conn = _fresh()
    else:
        fs, conn = _shared()
    try:
        ref_rows = None
        if not z["mutates"]:
            rc = conn.cursor(core.DictCursor) if use_dict else conn.cursor()
            for s in stmts:
                rc.execute(s)
            ref_rows = rc.fetchall()
        cur = conn.cursor(core.DictCursor) if use_dict else conn.cursor()
        for s in stmts:
            o = core.run_stmt(cur, s, fetch=False)
            if not o["ok"]:
                env.count("zoo_statement_rejected")
                return
        got: list = []
        if point == 1:
            one = cur.fetchone()
            if one is not None:
                got.append(one)
        elif point == "all":
            got += cur.fetchall()
        s1 = core.snapshot(fs)
        st1 = core.session_state(conn)
        env.count("cmp_readable")
        d = core.read_description(cur)
        if not d["ok"]:
            env.witness(_raise_key(d["exc"], z["tag"]), f"after {sql!r}: {d['exc']}"[:600])
            return
        desc = cur.description
        env.count("cmp_no_side_effect")
        s2 = core.snapshot(fs)
        if s1 != s2 or core.session_state(conn) != st1:
            env.witness(f"C06/description-changed-state/{z['tag']}", f"after {sql!r}: {core.snap_diff(s1, s2)} {st1} -> {core.session_state(conn)}"[:800])
            return
        rest = cur.fetchall()
        allrows = got + rest
        env.count("cmp_pending_rows")
        if ref_rows is not None:
            same = (allrows == ref_rows) if z["ordered"] else (sorted(map(repr, allrows)) == sorted(map(repr, ref_rows)))
            if not same:
                env.witness(f"C06/pending-rows-changed/{z['tag']}/point={point}", f"{sql!r}: with description read {allrows[:3]}.. without {ref_rows[:3]}..")
                return
        elif cur.rowcount is not None and z["tag"].startswith(("q_", "show", "desc", "is_")) and len(allrows) != cur.rowcount:
            env.witness(f"C06/pending-rows-changed/{z['tag']}/point={point}", f"{sql!r}: {len(allrows)} rows handed out, rowcount {cur.rowcount}")
        _check_desc(env, z["tag"], sql, desc, allrows, use_dict)
        # reading it twice gives the same answer
        if [tuple(x) for x in cur.description] != [tuple(x) for x in desc]:
            env.witness(f"C06/description-unstable/{z['tag']}", sql)
        env.nontrivial(("A", z["tag"], use_dict, point))
    finally:
        if z["mutates"]:
            fs.duck_conn.close()


def _part_b(case: dict, env: core.Env) -> None:
    z = zoo.BY_TAG[case["tag"]]
    fs, conn = _shared()
    stmts = [zoo.render(s) for s in z["stmts"]]
    sql = stmts[-1]
    cur = conn.cursor()
    for s in stmts[:-1]:
        cur.execute(s)
    s1 = core.snapshot(fs)
    env.count("cmp_describe")
    try:
        d1 = [tuple(x) for x in conn.cursor().describe(sql)]
    except Exception as e:  # noqa: BLE001
        env.witness(f"C06/describe-raises/{z['tag'].split('_')[0]}", f"describe({sql!r}): {type(e).__name__}: {e}"[:500])
        return
    if core.snapshot(fs) != s1:
        env.witness(f"C06/describe-changed-state/{z['tag']}", sql)
        return
    cur.execute(sql)
    d = core.read_description(cur)
    if not d["ok"]:
        return  # part A's subject
    if d["desc"] != d1:
        env.witness(f"C06/describe-differs-from-description/{z['tag']}", f"{sql!r}: describe {d1} vs description {d['desc']}"[:900])
        return
    # the same through a DictCursor; and a describe() that fails leaves the cursor what it was
    dc = conn.cursor(core.DictCursor)
    env.count("cmp_describe")
    try:
        d2 = [tuple(x) for x in dc.describe(sql)]
        if d2 != d1:
            env.witness("C06/describe-differs/dict-cursor-vs-tuple-cursor", f"{sql!r}: {d2} vs {d1}"[:600])
    except Exception as e:  # noqa: BLE001
        env.witness(f"C06/describe-raises/dict-cursor/{type(e).__name__}", f"DictCursor.describe({sql!r}): {e}"[:300])
        return
    try:
        dc.describe("SELECT NO_SUCH_COLUMN_X FROM DB1.S1.PEOPLE")
    except Exception:  # noqa: BLE001
        pass
    o = core.run_stmt(dc, "SELECT ID, NAME FROM DB1.S1.PEOPLE ORDER BY ID")
    if o["ok"] and o["rows"] and not isinstance(o["rows"][0], dict):
        env.witness("C06/dict-cursor-hands-out-tuples-after-failed-describe", f"{o['rows'][:2]}")
    tc = conn.cursor()
    try:
        tc.describe("SELECT NO_SUCH_COLUMN_X FROM DB1.S1.PEOPLE")
    except Exception:  # noqa: BLE001
        pass
    o = core.run_stmt(tc, "SELECT ID, NAME FROM DB1.S1.PEOPLE ORDER BY ID")
    if o["ok"] and o["rows"] and not isinstance(o["rows"][0], tuple):
        env.witness("C06/tuple-cursor-hands-out-dicts-after-failed-describe", f"{o['rows'][:2]}")
    env.nontrivial(("B", z["tag"]))


def _part_b2(case: dict, env: core.Env) -> None:
    """describe() of statements whose execution would be visible must not execute them."""
    fs, conn = _fresh()
    try:
        sql = case["sql"]
        kind = sql.split()[0].upper()
        s1 = core.snapshot(fs)
        env.count("cmp_describe")
        err = None
        try:
            d1 = [tuple(x) for x in conn.cursor().describe(sql)]
        except Exception as e:  # noqa: BLE001
            err = e
            d1 = None
        s2 = core.snapshot(fs)
        if s1 != s2:
            env.witness(f"C06/describe-executed-the-statement/{kind}", f"describe({sql!r}): {core.snap_diff(s1, s2)}")
            return
        if err is not None:
            if core.exc_kind(err) != "snowflake":
                env.witness(f"C06/describe-raises/{kind}", f"describe({sql!r}): {type(err).__name__}: {err}"[:400])
            return
        cur = conn.cursor()
        cur.execute(sql)
        d = core.read_description(cur)
        if d["ok"] and d["desc"] != d1:
            env.witness(f"C06/describe-differs-from-description/{kind}", f"{sql!r}: describe {d1} vs description {d['desc']}"[:900])
            return
        if kind == "SELECT" and "random" in sql:
            # seeded: describing must not have consumed/changed what executing returns
            r1 = cur.fetchall()
            c2 = conn.cursor()
            c2.execute(sql)
            if c2.fetchall() != r1:
                env.witness("C06/seeded-random-not-repeatable-around-describe", f"{sql}")
        env.nontrivial(("B2", sql))
    finally:
        fs.duck_conn.close()


def _part_c(case: dict, env: core.Env) -> None:
    decl, tc, prec, scale = case["decl"]
    fs, conn = _shared()
    cur = conn.cursor()
    cur.execute(f"CREATE OR REPLACE TABLE DECL_T (C {decl})")
    sample = {TS_TZ: "'2020-01-02 03:04:05.123456+00:00'", TS_NTZ: "'2020-01-02 03:04:05.123456'", TIME: "'03:04:05'"}.get(tc if isinstance(tc, int) else -1)
    if sample:
        cur.execute(f"INSERT INTO DECL_T VALUES ({sample})")
    # the column declared here, added later, and the type used in a cast all describe alike
    cur.execute("ALTER TABLE DECL_T ADD COLUMN C2 " + decl)
    cur.execute(f"SELECT C, C2, CAST(C AS {decl}) AS C3 FROM DECL_T")
    d3 = core.read_description(cur)
    cur.fetchall()
    if d3["ok"] and len({(x[1], x[4], x[5]) for x in d3["desc"]}) != 1:
        env.witness(f"C06/declared/{decl}/column-vs-added-column-vs-cast", f"declared {decl}: CREATE TABLE column, ADD COLUMN and CAST describe as {d3['desc']}")
    cur.execute("ALTER TABLE DECL_T DROP COLUMN C2")
    cur.execute("SELECT * FROM DECL_T")
    env.count("cmp_declared")
    d = core.read_description(cur)
    got_rows = cur.fetchall()
    conn.cursor().execute("DROP TABLE DECL_T")
    if sample and d["ok"]:
        import datetime as _dt
        v = got_rows[0][0] if got_rows else None
        want = {TS_TZ: lambda v: type(v) is _dt.datetime and v.tzinfo is not None, TS_NTZ: lambda v: type(v) is _dt.datetime and v.tzinfo is None,
                TIME: lambda v: type(v) is _dt.time}[tc]
        if not want(v):
            env.witness(f"C06/declared/{decl}/python-value", f"declared {decl}: fetched {v!r} ({type(v).__name__})")
    if not d["ok"]:
        env.witness(f"C06/declared/{decl}/description-raises", str(d["exc"])[:300])
        return
    md = cur.description[0] if False else None
    name, code, _disp, _isize, p, s, _null = d["desc"][0]
    codes = tc if isinstance(tc, (tuple, list)) else (tc,)
    if name != "C" or code not in codes:
        env.witness(f"C06/declared/{decl}/type-code", f"declared {decl}: description {d['desc'][0]} expected type {[TNAME[c] for c in codes]}")
    elif prec is not None and (p, s) != (prec, scale):
        env.witness(f"C06/declared/{decl}/precision-scale", f"declared {decl}: precision/scale {(p, s)} expected {(prec, scale)}")
    del md
    env.nontrivial(("C", decl))


def _part_d(case: dict, env: core.Env) -> None:
    fs, conn = _shared()
    e = case["expr"]
    agg = any(k in e for k in ("count(", "sum(", "avg(", "min(", "max(", " over "))
    sql = f"SELECT {e} AS X" if case["ctx"] == "bare" or agg else f"SELECT {e} AS X FROM PEOPLE WHERE ID = 1"
    for use_dict in (False, True):
        cur = conn.cursor(core.DictCursor) if use_dict else conn.cursor()
        o = core.run_stmt(cur, sql)
        if not o["ok"]:
            env.count("expression_rejected")
            env.cover("expression_rejected", f"{e} :: {o['exc']['cls']}")
            return
        env.count("cmp_readable")
        d = core.read_description(cur)
        if not d["ok"]:
            env.witness(_raise_key(d["exc"], f"expr:{e}"), f"after {sql!r}: {d['exc']}"[:500])
            return
        _check_desc(env, f"expr:{e}", sql, cur.description, o["rows"], use_dict)
    env.nontrivial(("D", e, case["ctx"]))


def _part_r(case: dict, env: core.Env) -> None:
    fs, conn = _shared()
    sel, want_names = [], []
    for j, ((kind, text), alias) in enumerate(zip(case["items"], case["aliases"])):
        if alias is None and kind == "expr":
            alias = f"E{j}"
        sel.append(text + (f" AS {alias}" if alias else ""))
        nm = alias if alias else text
        want_names.append(nm[1:-1] if nm.startswith('"') else nm.upper())
    inner = "SELECT " + ", ".join(sel) + (" FROM PEOPLE" if case["from"] else "")
    wrap = case["wrap"]
    dup = len(set(want_names)) != len(want_names)
    if dup and wrap in ("subquery", "cte", "union_all"):
        wrap = "none"  # ambiguous column names cannot be selected through a derived table
    sql = {"none": inner, "subquery": f"SELECT * FROM ({inner}) t", "cte": f"WITH c AS ({inner}) SELECT * FROM c",
           "union_all": f"{inner} UNION ALL {inner}", "limit0": f"{inner} LIMIT 0",
           "where_false": inner + (" WHERE 1 = 0" if case["from"] else " LIMIT 0"),
           "order_limit": inner + (" ORDER BY ID LIMIT 2" if case["from"] and not dup else " LIMIT 2")}[wrap]
    env.cover("composed_wrap", wrap)
    base_desc = None
    for use_dict in (False, True):
        cur = conn.cursor(core.DictCursor) if use_dict else conn.cursor()
        o = core.run_stmt(cur, sql)
        if not o["ok"]:
            env.count("expression_rejected")
            env.cover("composed_rejected", o["exc"]["cls"])
            return
        env.count("cmp_readable")
        d = core.read_description(cur)
        if not d["ok"]:
            env.witness(_raise_key(d["exc"], "composed"), f"after {sql!r}: {d['exc']}"[:500])
            return
        if d["names"] != want_names:
            env.witness(f"C06/names/composed/{'quoted' if any(n != n.upper() or ' ' in n for n in want_names) else 'unquoted'}-alias",
                        f"{sql!r}: description names {d['names']} expected {want_names}")
            return
        _check_desc(env, "composed", sql, cur.description, o["rows"], use_dict)
        if base_desc is not None and d["desc"] != base_desc:
            env.witness("C06/description-differs/tuple-vs-dict-cursor", f"{sql!r}: {base_desc} vs {d['desc']}")
        base_desc = d["desc"]
        # describe() of the same text gives the same answer and leaves the result alone
        env.count("cmp_describe")
        try:
            dd = [tuple(x) for x in conn.cursor().describe(sql)]
        except Exception as e:  # noqa: BLE001
            env.witness(f"C06/describe-raises/composed/{type(e).__name__}", f"{sql!r}: {e}"[:300])
            return
        if dd != [tuple(x) for x in d["desc"]]:
            env.witness("C06/describe-differs-from-description/composed", f"{sql!r}: describe {dd} description {d['desc']}")
            return
    # an empty result has the same description as the full one
    if wrap in ("limit0", "where_false"):
        cur = conn.cursor()
        o2 = core.run_stmt(cur, inner)
        if o2["ok"]:
            d2 = core.read_description(cur)
            env.count("cmp_empty_vs_full")
            if d2["ok"] and d2["desc"] != base_desc:
                env.witness("C06/description-differs/empty-result-vs-full", f"{sql!r}: {base_desc} vs full {d2['desc']}")
    env.nontrivial(("R", sql))


def _part_s(case: dict, env: core.Env) -> None:
    """Same statement text, same cursor, result shape changed in between: description must follow the new result."""
    import snowflake.connector

    scen = case["scenario"]
    in_txn = scen.startswith("txn_")  # the reshaping statement runs inside this connection's open transaction, uncommitted
    full_scen, scen = scen, scen[4:] if in_txn else scen
    saved = snowflake.connector.paramstyle
    if scen == "qmark_types":
        snowflake.connector.paramstyle = "qmark"
    try:
        fs, conn = _fresh()
    finally:
        snowflake.connector.paramstyle = saved
    try:
        cur = conn.cursor()
        other = conn.cursor()
        sql, p1, p2 = "SELECT * FROM SHAPE_T", None, None
        other.execute("CREATE TABLE SHAPE_T (A INT, B VARCHAR)")
        other.execute("INSERT INTO SHAPE_T VALUES (1, 'x')")
        if scen == "qmark_types":
            sql, p1, p2 = "SELECT ? AS X", (1,), ("hello",)
        elif scen == "view_replaced":
            other.execute("CREATE VIEW SHAPE_V AS SELECT A FROM SHAPE_T")
            sql = "SELECT * FROM SHAPE_V"
        cur.execute(sql, p1) if p1 else cur.execute(sql)
        if case["read_between"]:
            _ = cur.description
        cur.fetchall()
        if in_txn:
            other.execute("BEGIN")
        if scen == "alter_rename":
            other.execute("ALTER TABLE SHAPE_T RENAME COLUMN B TO B2")
        if scen in ("replace_table", "other_cursor_replaces"):
            c2 = fs.connect("db1", "s1").cursor() if scen == "other_cursor_replaces" else other
            c2.execute("CREATE OR REPLACE TABLE SHAPE_T (A NUMBER(12,4), C DATE, D FLOAT)")
            c2.execute("INSERT INTO SHAPE_T VALUES (1.5, '2020-01-01', 2.5)")
        elif scen == "alter_add":
            other.execute("ALTER TABLE SHAPE_T ADD COLUMN Z BOOLEAN")
        elif scen == "alter_drop":
            other.execute("ALTER TABLE SHAPE_T DROP COLUMN B")
        elif scen == "use_schema":
            other.execute("CREATE SCHEMA S9")
            other.execute("CREATE TABLE S9.SHAPE_T (ONLY_IN_S9 DATE)")
            other.execute("USE SCHEMA S9")
        elif scen == "view_replaced":
            other.execute("CREATE OR REPLACE VIEW SHAPE_V AS SELECT B, A FROM SHAPE_T")
        o = core.run_stmt(cur, sql, p2 if p2 else None)
        if not o["ok"]:
            env.count("zoo_statement_rejected")
            return
        env.count("cmp_readable")
        d = core.read_description(cur)
        if not d["ok"]:
            env.witness(f"C06/description-raises/re-executed:{scen}/{d['exc']['cls']}", str(d["exc"])[:300])
            return
        scen = full_scen
        _check_desc(env, f"re-executed:{scen}", sql, cur.description, o["rows"], False)
        dc = conn.cursor(core.DictCursor)
        o2 = core.run_stmt(dc, sql, p2 if p2 else None)
        if o2["ok"]:
            _check_desc(env, f"re-executed:{scen}", sql, dc.description, o2["rows"], True)
        try:
            dd = [tuple(x) for x in conn.cursor().describe(sql, p2)] if p2 else [tuple(x) for x in conn.cursor().describe(sql)]
            env.count("cmp_describe")
            if dd != d["desc"]:
                env.witness(f"C06/describe-differs-from-description/re-executed:{scen}", f"{sql}: describe {dd} description {d['desc']}")
        except Exception as e:  # noqa: BLE001
            env.witness(f"C06/describe-raises/re-executed:{scen}/{type(e).__name__}", str(e)[:200])
        # and it must equal the description a fresh cursor gives for the same statement now
        fresh = conn.cursor()
        fresh.execute(sql, p2) if p2 else fresh.execute(sql)
        if [tuple(x) for x in fresh.description] != d["desc"]:
            env.witness(f"C06/stale-description/same-text-re-executed/{scen}", f"{sql}: {d['desc']} but a fresh cursor reports {[tuple(x) for x in fresh.description]}")
        env.nontrivial(("S", scen, case["read_between"]))
    finally:
        fs.duck_conn.close()


def _part_n(case: dict, env: core.Env) -> None:
    """A statement no-op'd by nop_regexes is a statement like any other for description."""
    import snowflake.connector

    saved = snowflake.connector.paramstyle
    snowflake.connector.paramstyle = case["style"]
    try:
        fs = core.new_fs(nop_regexes=[r"^CALL\b"])
        conn = zoo.build_fixture(fs)
    finally:
        snowflake.connector.paramstyle = saved
    try:
        cur = conn.cursor(core.DictCursor)
        if case["prev"] == "select":
            cur.execute("SELECT ID, NAME, AGE, SCORE FROM PEOPLE")
        elif case["prev"] == "update":
            cur.execute("UPDATE PEOPLE SET AGE = 1 WHERE ID = 1")
        elif case["prev"] == "fetched":
            cur.execute("SELECT ID, NAME FROM PEOPLE")
            cur.fetchone()
        o = core.run_stmt(cur, "CALL my_proc(1)")
        if not o["ok"]:
            env.count("zoo_statement_rejected")
            return
        env.count("cmp_readable")
        d = core.read_description(cur)
        if not d["ok"]:
            env.witness(f"C06/description-raises/after-nop-statement/prev={case['prev']}/{d['exc']['cls']}", str(d["exc"])[:300])
            return
        if d["names"] != ["status"] or (o["rows"] and list(o["rows"][0].keys()) != d["names"]):
            env.witness(f"C06/stale-description/after-nop-statement/prev={case['prev']}", f"description {d['names']} rows {o['rows']}")
        env.nontrivial(("N", case["prev"], case["style"]))
    finally:
        fs.duck_conn.close()


def _part_b3(case: dict, env: core.Env) -> None:
    """describe() must not disturb the session's seeded random sequence (twin sessions with / without the describe)."""
    seqs = []
    for with_describe in (False, True):
        fs, conn = _fresh()
        try:
            cur = conn.cursor()
            cur.execute("CREATE TABLE PEOPLE2 AS SELECT ID AS A FROM PEOPLE")
            cur.execute("SELECT RANDOM(42)")
            a = cur.fetchall()
            if with_describe:
                try:
                    conn.cursor().describe(case["sql"])
                except Exception:  # noqa: BLE001
                    env.count("zoo_statement_rejected")
            b = [conn.cursor().execute("SELECT RANDOM()").fetchall() for _ in range(3)]
            seqs.append((a, b))
        finally:
            fs.duck_conn.close()
    env.count("cmp_describe")
    if seqs[0] != seqs[1]:
        env.witness("C06/describe-changed-session/random-sequence", f"describe({case['sql']!r}) changed the session's RANDOM() sequence: {seqs[0][1]} vs {seqs[1][1]}")
    env.nontrivial(("B3", case["sql"]))


def _part_p(case: dict, env: core.Env) -> None:
    import snowflake.connector

    style = case["style"]
    saved = snowflake.connector.paramstyle
    snowflake.connector.paramstyle = style
    try:
        fs, conn = _fresh()
    finally:
        snowflake.connector.paramstyle = saved
    try:
        n = case["sql"].count("{p}")
        sql = case["sql"].replace("{p}", "?" if style == "qmark" else "%s")
        params = tuple([3, 1][:n]) if n == 2 else (3,)
        if "note" in sql:
            params = (55, "n")
        kind = sql.split()[0].upper()
        cur = conn.cursor()
        o = core.run_stmt(cur, sql, params, fetch=False)
        if not o["ok"]:
            env.count("zoo_statement_rejected")
            return
        s1 = core.snapshot(fs)
        env.count("cmp_readable")
        d = core.read_description(cur)
        if not d["ok"]:
            env.witness(f"C06/description-raises/with-{style}-params/{kind}/{d['exc']['cls']}", f"after {sql!r} {params}: {d['exc']}"[:500])
            return
        if core.snapshot(fs) != s1:
            env.witness(f"C06/description-changed-state/with-{style}-params/{kind}", sql)
            return
        _check_desc(env, f"params:{kind}", sql, cur.description, cur.fetchall(), False)
        env.nontrivial(("P", style, sql))
    finally:
        fs.duck_conn.close()
