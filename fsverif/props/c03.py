"""C03 Names resolve against each connection's own current database and schema.

Monitor: ContextModel + catalog model over generated multi-connection histories; after every
step all four context channels of every connection are compared with the model, unique
markers locate where writes landed (raw engine cursor), and failing statements must leave
snapshot and session state unchanged."""

from __future__ import annotations

import random
from typing import Any

from fsverif import core

ID = "C03"
LEVEL = "exploration"
BUDGET = {"quick": 70, "thorough": 600}
RULE = (
    "case = history (<=12 steps quick, <=25 thorough) over 2-3 connections of one instance of CREATE DATABASE/SCHEMA/TABLE/VIEW, "
    "DROP SCHEMA/TABLE, USE DATABASE, USE SCHEMA (bare and db.schema, existing and missing), and marker INSERT / SELECT / DDL at "
    "the three qualification levels. Non-trivial = at least one context-changing statement succeeded and at least one marker "
    "write at level 0 or 1 was located afterwards; distinct = distinct histories."
)
REQUIRED = ["cmp_context", "cmp_marker", "cmp_missing_context", "cmp_failed_unchanged", "cmp_current_fn", "use_db_ok", "use_schema_ok",
            "use_schema_qualified_ok", "drop_current_schema"]
ASSUMPTIONS = [
    "DROP DATABASE is left out (unsupported by the fake; a TODO in its tests)",
    "a schema is only dropped when it is not the current schema of a *different* connection (per-connection bookkeeping of "
    "another session's drop is outside what the histories exercise)",
    "the schema that is current after USE DATABASE is not fixed by the model: the implementation's report is taken, and then "
    "required to be consistent (exists, equals the engine's, and is where names resolve)",
]

DBS = ["DB1", "DB2", "DB3"]
SCHEMAS = ["S1", "S2", "S3"]
TABLES = ["T1", "T2"]


_FIXED_SPELLING = [False]


def _spell(r: random.Random, s: str) -> str:
    if _FIXED_SPELLING[0]:
        # one spelling per name for the whole case: the same statement text then comes back after the context changed
        return s.lower()
    return r.choice([s, s.lower(), s.capitalize()])


def gen_cases(tier: str, seed: int):
    if tier == "thorough":
        # the repository's own tests as one more workload, under the always-on invariants
        yield {"kind": "repo_tests"}
    r = random.Random(f"{seed}:C03")
    n, maxsteps = (400, 12) if tier == "quick" else (6000, 25)
    inits = [("db1", "s1"), ("db1", None), (None, None), ("db2", "s2"), ("db2", "s1"), ("DB1", "S2")]
    for _ in range(n):
        k = r.choice([2, 2, 3])
        conns = [r.choice(inits) for _ in range(k)]
        steps = []
        # prefix: build a catalog with same-named schemas/tables in several databases (fully qualified, any connection)
        for db in ("DB1", "DB2"):
            steps.append(["create_db", r.randrange(k), db])
            for sc in r.sample(SCHEMAS, r.randint(1, 3)):
                steps.append(["create_schema", r.randrange(k), 1, db, sc])
                for tb in r.sample(TABLES, r.randint(0, 2)):
                    steps.append(["create_table", r.randrange(k), 2, db, sc, tb])
        for _ in range(r.randint(4, maxsteps)):
            ci = r.randrange(k)
            x = r.random()
            lvl = r.choice([0, 0, 1, 2])
            db, sc, tb = r.choice(DBS), r.choice(SCHEMAS), r.choice(TABLES)
            made_t = [st for st in steps if st[0] == "create_table"]
            made_s = [st for st in steps if st[0] == "create_schema" and st[2] == 1]
            if made_t and r.random() < 0.75:
                _, _, _, db, sc, tb = r.choice(made_t)
            elif made_s and r.random() < 0.6:
                _, _, _, db, sc = r.choice(made_s)
            if x < 0.03:
                steps.append(["create_db", ci, db])
            elif x < 0.11:
                steps.append(["create_schema", ci, r.choice([0, 1]), db, sc])
            elif x < 0.16:
                steps.append(["drop_schema", ci, r.choice([0, 1]), db, sc])
            elif x < 0.26:
                steps.append(["create_table", ci, lvl, db, sc, tb])
            elif x < 0.30:
                steps.append(["drop_table", ci, lvl, db, sc, tb])
            elif x < 0.34:
                steps.append(["create_view", ci, lvl, db, sc, "V1"])
            elif x < 0.46:
                steps.append(["use_db", ci, db, r.random() < 0.3])  # last: without the (optional) DATABASE keyword
            elif x < 0.62:
                q = r.choice([0, 1])
                steps.append(["use_schema", ci, q, db, sc, bool(q) and r.random() < 0.3])  # last: USE db.schema without SCHEMA
            elif x < 0.80:
                steps.append(["insert", ci, lvl, db, sc, tb])
            elif x < 0.87:
                steps.append(["merge", ci, lvl, db, sc, tb])
            else:
                steps.append(["select", ci, lvl, db, sc, tb])
        yield {"conns": conns, "steps": steps, "spell": r.randrange(1 << 30)}


def setup_worker(env: core.Env) -> None:
    pass


def run_case(case: dict, env: core.Env) -> None:
    if case.get("kind") == "repo_tests":
        return core.run_repo_tests_under_monitors(env, "C03/")
    r = random.Random(case["spell"])
    _FIXED_SPELLING[0] = case["spell"] % 2 == 0
    fs = core.new_fs()
    try:
        _run(case, env, fs, r)
    finally:
        fs.duck_conn.close()


def _run(case: dict, env: core.Env, fs: Any, r: random.Random) -> None:
    cat: dict[str, dict[str, dict[str, str]]] = {}  # db -> schema -> name -> kind
    ctx: list[list] = []
    conns = []
    for (d, s) in case["conns"]:
        c = fs.connect(d, s)
        conns.append(c)
        D, S = (d.upper() if d else None), (s.upper() if s else None)
        if D:
            cat.setdefault(D, {})
            if S:
                cat[D].setdefault(S, {})
        ctx.append([D, S if D else None])
    raw = core.raw_root(fs).cursor()
    # every connection also keeps two cursors open for the whole history: a step runs on one of them or on a fresh one
    held = [[c.cursor(), c.cursor()] for c in conns]
    pick = random.Random(case.get("spell", 0) ^ 0x5BD1)
    marker_n = [0]
    ctx_changed = False
    located = 0
    last_out: dict = {}

    def check_contexts(after: str) -> bool:
        ok = True
        for i, c in enumerate(conns):
            D, S = ctx[i]
            env.count("cmp_context")
            rep = (c.database if c.database_set else None, c.schema if c.schema_set else None)
            if c.database_set != (D is not None) or (D is not None and c.database != D):
                env.witness(f"C03/context/after-{after}/conn.database", f"conn{i}: database={c.database!r} set={c.database_set} model={D!r}")
                ok = False
            elif c.schema_set != (S is not None) or (S is not None and c.schema != S):
                env.witness(f"C03/context/after-{after}/conn.schema", f"conn{i}: schema={c.schema!r} set={c.schema_set} model={S!r} (db {D})")
                ok = False
            if not ok:
                return False
            if D is not None:
                ed, es = core.engine_context(c)
                if ed != D:
                    env.witness(f"C03/context/after-{after}/engine-database", f"conn{i}: engine {ed!r} model {D!r} reported {rep}")
                    return False
                if S is not None and es != S:
                    env.witness(f"C03/context/after-{after}/engine-schema", f"conn{i}: engine {es!r} model {S!r} reported {rep}")
                    return False
            if D is not None and S is not None:
                env.count("cmp_current_fn")
                got = c.cursor().execute("SELECT CURRENT_DATABASE(), CURRENT_SCHEMA()").fetchall()
                if got != [(D, S)]:
                    env.witness(f"C03/context/after-{after}/current-functions", f"conn{i}: {got} model {(D, S)}")
                    return False
        return True

    def resolve(i: int, lvl: int, db: str, sc: str) -> tuple[str | None, str | None, str | None]:
        """(database, schema, missing-context errno) for a name at qualification level lvl on connection i."""
        D, S = ctx[i]
        if lvl == 2:
            return db, sc, None
        if D is None:
            return None, None, "90105"
        if lvl == 1:
            return D, sc, None
        if S is None:
            return None, None, "90106"
        return D, S, None

    def name_sql(lvl: int, db: str, sc: str, nm: str) -> str:
        parts = [nm] if lvl == 0 else [sc, nm] if lvl == 1 else [db, sc, nm]
        return ".".join(_spell(r, p) for p in parts)

    def expect_fail(out: dict, op: str, lvl: Any, errno: str | None, before: Any, i: int) -> None:
        """The statement must have failed with a Snowflake error (a specific one when errno is given) and changed nothing."""
        if out["ok"]:
            env.witness(f"C03/should-fail/{op}/level{lvl}/expected-{errno or 'error'}", f"{out['sql']} succeeded; ctx={ctx[i]}")
            return
        e = out["exc"]
        if errno:
            env.count("cmp_missing_context")
            # USE SCHEMA <unqualified> without a current database: real Snowflake answers 002043 (02000) "Object does not
            # exist, or operation cannot be performed" (see the repository's own test_connect notes), so both are accepted
            if op == "use_schema" and e["kind"] == "snowflake" and (str(e.get("errno")), e.get("sqlstate")) == ("2043", "02000"):
                pass
            elif e["kind"] != "snowflake" or str(e.get("errno")) != errno or e.get("sqlstate") != "22000":
                env.witness(
                    f"C03/missing-context/{op}/level{lvl}/expected-{errno}/got-{e.get('errno', e['cls'])}",
                    f"{out['sql']} with ctx={ctx[i]}: {e}",
                )
        env.count("cmp_failed_unchanged")
        after = (core.snapshot(fs), [core.session_state(c) for c in conns])
        if after != before:
            d = core.snap_diff(before[0], after[0]) or [f"session state {before[1]} -> {after[1]}"]
            env.witness(f"C03/failed-statement-changed-state/{op}", f"{out['sql']}: {d}"[:800])

    if not check_contexts("connect"):
        return

    for step in case["steps"]:
        op, i = step[0], step[1]
        c = conns[i]
        which = pick.randrange(3)
        cur = c.cursor() if which == 2 else held[i][which]
        env.cover("cursor_used", "fresh" if which == 2 else f"held-{which}")
        D, S = ctx[i]
        env.cover("op", op)
        fail: tuple | None = None  # (level, errno-or-None) when the statement must fail
        runner = None  # set when the step goes through an API call rather than a statement
        on_ok = None  # model update + checks after success; returns False to stop the case
        after_tag = op

        if op == "create_db":
            db = step[2]
            sql = f"CREATE DATABASE {_spell(r, db)}"
            if db in cat:
                fail = ("-", None)

            def on_ok(db=db):
                cat[db] = {}
                return True
        elif op == "create_schema":
            _, _, q, db, sc = step
            tdb = db if q else D
            sql = f"CREATE SCHEMA {name_sql(1, '', db, sc) if q else _spell(r, sc)}"
            if tdb is None:
                fail = (q, "90105")
            elif tdb not in cat or sc in cat[tdb]:
                fail = (q, None)

            def on_ok(tdb=tdb, sc=sc):
                cat[tdb][sc] = {}
                return True
        elif op == "drop_schema":
            _, _, q, db, sc = step
            tdb = db if q else D
            if tdb is not None and any(j != i and ctx[j] == [tdb, sc] for j in range(len(conns))):
                continue  # see ASSUMPTIONS
            if_exists = r.random() < 0.4
            sql = f"DROP SCHEMA {'IF EXISTS ' if if_exists else ''}{name_sql(1, '', db, sc) if q else _spell(r, sc)}"
            if if_exists and tdb is not None and tdb in cat and sc not in cat[tdb]:
                continue  # a no-op by definition
            if tdb is None:
                fail = (q, "90105")
            elif tdb not in cat or sc not in cat[tdb]:
                fail = (q, None)
            after_tag = "drop-current-schema" if ctx[i] == [tdb, sc] else "drop-other-schema"

            def on_ok(tdb=tdb, sc=sc):
                del cat[tdb][sc]
                if ctx[i] == [tdb, sc]:
                    ctx[i][1] = None
                    env.count("drop_current_schema")
                return True
        elif op in ("create_table", "drop_table", "create_view", "insert", "select", "merge"):
            _, _, lvl, db, sc, nm = step
            merge = op == "merge"
            if merge:
                if D is None or S is None:
                    continue  # MERGE without a full session context is C12's business
                op = "insert"
            rd, rs, errno = resolve(i, lvl, db, sc)
            nsql = name_sql(lvl, db, sc, nm)
            schema_ok = rd in cat and rs in cat.get(rd, {})
            exists = schema_ok and nm in cat[rd][rs]
            kind = cat[rd][rs][nm] if exists else None
            marker = None
            if op == "create_table":
                sql = f"CREATE TABLE {nsql} (ID INT, M VARCHAR)"
            elif op == "create_view":
                sql = f"CREATE VIEW {nsql} AS SELECT 1 AS ID, 'view' AS M"
            elif op == "drop_table":
                sql = f"DROP TABLE {nsql}"
            elif op == "insert":
                marker_n[0] += 1
                marker = f"m{marker_n[0]}"
                sql = f"INSERT INTO {nsql} (ID, M) VALUES ({marker_n[0]}, '{marker}')"
                if not merge and '"' not in nsql and r.random() < 0.2:
                    # the same name handed over as text
                    sql = f"INSERT INTO IDENTIFIER('{nsql}') (ID, M) VALUES ({marker_n[0]}, '{marker}')"
                    env.count("identifier_targets")
                if not merge and not errno and kind == "table" and r.random() < 0.2:
                    # the same row loaded with write_pandas, the name given by its table / schema / database arguments
                    kw = {} if lvl == 0 else {"schema": _spell(r, sc)} if lvl == 1 else {"database": _spell(r, db), "schema": _spell(r, sc)}
                    tname = _spell(r, nm)
                    sql = f"write_pandas (conn, df[{marker_n[0]}, '{marker}'], {tname!r}, **{kw})"
                    env.count("write_pandas_targets")

                    def runner(c=c, kw=kw, tname=tname, n=marker_n[0], marker=marker, sql=sql):
                        import pandas as pd

                        import fakesnow.fakes as fakes
                        try:
                            res = fakes.write_pandas(c, pd.DataFrame({"ID": [n], "M": [marker]}), tname, **kw)
                        except Exception as e:  # noqa: BLE001
                            return {"sql": sql, "ok": False, "exc": core.exc_info(e)}
                        return {"sql": sql, "ok": True, "rows": [(res[2],)]}
                if merge:
                    sql = (f"MERGE INTO {nsql} t USING (SELECT {marker_n[0]} AS ID, '{marker}' AS M) s ON t.ID = s.ID "
                           "WHEN NOT MATCHED THEN INSERT (ID, M) VALUES (s.ID, s.M)")
                    env.count("merge_statements")
            else:
                sql = f"SELECT M FROM {nsql}"
                y = r.random()
                if y < 0.2:  # the same name inside a CTE, a derived table, or next to a fully qualified one
                    sql = f"WITH c AS (SELECT M FROM {nsql}) SELECT M FROM c"
                elif y < 0.3:
                    sql = f"WITH c AS (SELECT 1 AS ONE) SELECT t.M FROM c JOIN {nsql} t ON 1 = 1"
                elif y < 0.4:
                    sql = f"SELECT M FROM (SELECT M FROM {nsql}) d"
                elif y < 0.55:
                    # after a fully qualified table of the same statement
                    full = [(d_, s_, t_) for d_, ss in cat.items() for s_, ts in ss.items() for t_, k_ in ts.items() if k_ == "table"]
                    if full:
                        fd, fsch, ft = full[r.randrange(len(full))]
                        sql = f"SELECT t.M FROM (SELECT COUNT(*) AS N FROM {fd}.{fsch}.{ft}) q JOIN {nsql} t ON q.N >= 0"
            if errno:
                fail = (lvl, errno)
            elif op in ("create_table", "create_view"):
                if not schema_ok or exists:
                    fail = (lvl, None)
            elif op in ("drop_table", "insert"):
                if kind != "table":
                    fail = (lvl, None)
            elif not exists:
                fail = (lvl, None)

            def on_ok(op=op, lvl=lvl, rd=rd, rs=rs, nm=nm, marker=marker, sql=sql, kind=kind):
                nonlocal located
                env.count("cmp_marker")
                if op in ("create_table", "create_view"):
                    cat[rd][rs][nm] = "table" if op == "create_table" else "view"
                if op == "drop_table":
                    del cat[rd][rs][nm]
                if op in ("create_table", "create_view", "drop_table"):
                    snap = core.snapshot(fs, data=False)
                    have = {tuple(t) for t in snap["tables"]} | {tuple(v) for v in snap["views"]}
                    have = {t for t in have if not t[2].startswith("_fs_")}
                    want = {(d, s, t) for d, ss in cat.items() for s, ts in ss.items() for t in ts}
                    if have != want:
                        env.witness(f"C03/resolve/{op}/level{lvl}", f"{sql} ctx={ctx[i]}: objects unexpected {sorted(have - want)} missing {sorted(want - have)}")
                        return False
                elif op == "insert":
                    snap = core.snapshot(fs, include_fs=False)
                    found = sorted(k for k, rows in snap["rows"].items() if any(f"'{marker}'" in rk for rk in rows))
                    if found != [f"{rd}.{rs}.{nm}"]:
                        env.witness(f"C03/resolve/{sql.split()[0].lower()}/level{lvl}", f"{sql} ctx={ctx[i]}: marker found in {found} expected {rd}.{rs}.{nm}")
                        return False
                    if lvl < 2:
                        located += 1
                else:
                    if kind == "view":
                        want_rows = [("view",)]
                    else:
                        want_rows = sorted(raw.execute(f'select M from "{rd}"."{rs}"."{nm}"').fetchall())
                    if sorted(last_out["rows"]) != want_rows:
                        env.witness(f"C03/resolve/select/level{lvl}", f"{sql} ctx={ctx[i]}: rows {last_out['rows']} but {rd}.{rs}.{nm} holds {want_rows}")
                        return False
                return True
        elif op == "use_db":
            db = step[2]
            sql = f"USE {_spell(r, db)}" if len(step) > 3 and step[3] else f"USE DATABASE {_spell(r, db)}"
            env.cover("use_spelling", "USE <db>" if len(step) > 3 and step[3] else "USE DATABASE <db>")
            if db not in cat:
                fail = ("-", None)

            def on_ok(db=db, sql=sql):
                nonlocal ctx_changed
                env.count("use_db_ok")
                ctx_changed = True
                # the schema after USE DATABASE is taken from the report, then checked for consistency
                rep_s = c.schema if c.schema_set else None
                if rep_s is not None and rep_s not in cat[db]:
                    env.witness("C03/context/after-use_db/current-schema-does-not-exist", f"{sql}: reports current schema {db}.{rep_s} which does not exist (previous context {ctx[i]})")
                    return False
                ctx[i] = [db, rep_s]
                return True
        elif op == "use_schema":
            _, _, q, db, sc = step[:5]
            tdb = db if q else D
            sql = f"USE SCHEMA {name_sql(1, '', db, sc) if q else _spell(r, sc)}"
            if q and len(step) > 5 and step[5]:
                sql = f"USE {name_sql(1, '', db, sc)}"
            env.cover("use_spelling", "USE <db>.<schema>" if q and len(step) > 5 and step[5] else "USE SCHEMA ..")
            if tdb is None:
                fail = (q, "90105")
            elif tdb not in cat or sc not in cat[tdb]:
                fail = (q, None)
            after_tag = "use_schema_qualified" if q and tdb != D else "use_schema"

            def on_ok(q=q, tdb=tdb, sc=sc):
                nonlocal ctx_changed
                env.count("use_schema_qualified_ok" if q else "use_schema_ok")
                ctx_changed = True
                ctx[i] = [tdb, sc]
                return True
        else:
            raise ValueError(op)

        if fail is not None:
            before = (core.snapshot(fs), [core.session_state(x) for x in conns])
            out = core.run_stmt(cur, sql)
            expect_fail(out, op, fail[0], fail[1], before, i)
        else:
            out = runner() if runner else core.run_stmt(cur, sql)
            last_out = out
            if not out["ok"]:
                env.witness(f"C03/rejected/{op}/{out['exc']['cls']}", f"{sql} ctx={ctx[i]}: {out['exc']}")
                return
            if not on_ok():
                return
        if not check_contexts(after_tag):
            return
    # a view whose body asks for the current schema answers with the schema of whoever reads it
    full = [i for i in range(len(conns)) if ctx[i][0] is not None and ctx[i][1] is not None and ctx[i][1] in cat.get(ctx[i][0], {})]
    if full:
        i0 = full[0]
        vname = f"{ctx[i0][0]}.{ctx[i0][1]}.VCTX"
        o = core.run_stmt(conns[i0].cursor(), f"CREATE OR REPLACE VIEW {vname} AS SELECT CURRENT_DATABASE() AS D, CURRENT_SCHEMA() AS S")
        if o["ok"]:
            for i in full:
                env.count("cmp_current_fn")
                got = core.run_stmt(conns[i].cursor(), f"SELECT D, S FROM {vname}")
                if got["ok"] and got["rows"] != [(ctx[i][0], ctx[i][1])]:
                    env.witness("C03/context/current-functions-inside-a-view", f"conn{i} (context {ctx[i]}) reads {vname} (made by conn{i0} in {ctx[i0]}): {got['rows']}")
                    break
            conns[i0].cursor().execute(f"DROP VIEW {vname}")
        # a table named bare inside CREATE VIEW denotes the table of the creator's context, whoever reads the view later
        others = [i for i in full if tuple(ctx[i]) != tuple(ctx[i0])]
        if others:
            i1 = others[0]
            a, b = f"{ctx[i0][0]}.{ctx[i0][1]}", f"{ctx[i1][0]}.{ctx[i1][1]}"
            c0, c1 = conns[i0].cursor(), conns[i1].cursor()
            made = []
            try:
                for fq, who in ((a, "creator"), (b, "reader")):
                    o = core.run_stmt(c0, f"CREATE OR REPLACE TABLE {fq}.VBASE (WHO VARCHAR)")
                    if not o["ok"]:
                        break
                    made.append(f"TABLE {fq}.VBASE")
                    c0.execute(f"INSERT INTO {fq}.VBASE VALUES ('{who}')")
                else:
                    o = core.run_stmt(c0, "CREATE OR REPLACE VIEW VOVER AS SELECT WHO FROM VBASE")
                    if o["ok"]:
                        made.append(f"VIEW {a}.VOVER")
                        env.count("cmp_view_body_names")
                        g0 = core.run_stmt(c0, f"SELECT WHO FROM {a}.VOVER")
                        g1 = core.run_stmt(c1, f"SELECT WHO FROM {a}.VOVER")
                        if not g0["ok"] or g0["rows"] != [("creator",)]:
                            env.witness("C03/resolve/view-body/creator-reads-its-own-view", f"conn{i0} in {a}: {g0.get('rows') or g0.get('exc')}")
                        elif not g1["ok"]:
                            env.witness("C03/resolve/view-body/unqualified-name-bound-at-query-time/reader-rejected", f"conn{i1} in {b} reads {a}.VOVER: {g1['exc']['msg'][:200]}")
                        elif g1["rows"] != [("creator",)]:
                            env.witness("C03/resolve/view-body/unqualified-name-bound-at-query-time/reads-the-readers-table", f"conn{i1} in {b} reads {a}.VOVER (SELECT WHO FROM VBASE, made in {a}): {g1['rows']}")
            finally:
                for m_ in reversed(made):
                    try:
                        c0.execute(f"DROP {m_}")
                    except Exception:  # noqa: BLE001
                        pass
    if ctx_changed and located:
        env.nontrivial(case)
