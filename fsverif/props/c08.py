"""C08 Bound parameters arrive as data, whatever they contain.

Monitors: (a) typed round trip through INSERT/SELECT, (b) differential twin with the same
values written as literals by the harness's own quoter, (c) structure preservation (fixture
objects intact, same number of engine statements as the twin - tap), (d) executemany == loop,
(e) paramstyle fixed at connect time."""

from __future__ import annotations

import datetime
import decimal
import random
from collections import Counter
from typing import Any

import snowflake.connector

from fsverif import core, tap

ID = "C08"
LEVEL = "exploration"
BUDGET = {"quick": 70, "thorough": 600}
RULE = (
    "case = (paramstyle pyformat-seq / pyformat-dict / format / qmark, placeholder position {VALUES, select list, WHERE =, "
    "WHERE <>, IN list, IN with a list value, LIKE, UPDATE SET, LIMIT, two statements in sequence}, parameter value(s) from "
    "adversarial string pools and typed pools, with/without a session variable whose value contains %). Non-trivial = at "
    "least one string parameter containing a character from '\\\"%$?;-/*\\n or a non-ASCII character, or a non-string typed "
    "parameter; distinct = distinct (style, position, values)."
)
REQUIRED = ["cmp_roundtrip", "cmp_twin_rows", "cmp_structure", "cmp_executemany", "cmp_paramstyle", "cmp_tap_statements"]
ASSUMPTIONS = [
    "literal % in the text of a pyformat/format statement with parameters is written %% (as with the real connector)",
    "the literal twin is written by the harness's own quoter: backslash doubled, quote doubled",
    "strings exclude U+0000; floats are finite",
]

NASTY = [
    "", "plain", "it's", "''", "'", "\\", "\\\\", "ends with backslash\\", "\\'", "a\\'b", "line1\nline2", "tab\there", "cr\rlf",
    "100%", "%s", "%(x)s", "%%", "%d items", "$v1", "$$x$$", "$5", "?", "??", "a?b", ";", "a;b", "--", "a -- b", "/* c */", "*/",
    "'; DROP TABLE DECOY; --", "' OR '1'='1", "x') ; DELETE FROM DECOY; --", "\"quoted\"", "`tick`", "héllo", "✓ ✗", "日本語", "🎉 party",
    "a\u0301", " lead", "trail ", "  ", "ACME      00042     EUR", "a \t b", "nb\u00a0sp", "em\u2003 sp", "x  ", "NULL", "null", "TRUE", "1", "1.5", "{\"k\": \"v\"}", "[1,2]", "%' OR '%'='", "_", "%_%",
]
# strings that are words of the SQL fakesnow looks for when it picks statements apart
KEYWORDS = ["unset", "UNSET", "Unset", "set", "SET", "select", "null", "default", "identifier", "merge", "begin", "commit", "use", "describe",
            "flatten", "current_database", "$", "unset v1", "SET v1 = 0"]
NASTY += KEYWORDS
TYPED = [
    ("I", 0), ("I", 1), ("I", -1), ("I", 2**31), ("I", -(2**63)), ("I", 2**63 - 1),
    ("F", 0.0), ("F", 1.5), ("F", -2.25), ("F", 1e300), ("F", 5e-324), ("F", 123456.789),
    ("D", decimal.Decimal("0")), ("D", decimal.Decimal("1.50000")), ("D", decimal.Decimal("-12345.67891")), ("D", decimal.Decimal("99999999999999.99999")),
    ("B", True), ("B", False),
    ("DT", datetime.date(2020, 1, 2)), ("DT", datetime.date(1969, 12, 31)), ("DT", datetime.date(2024, 2, 29)),
    ("TS", datetime.datetime(2020, 1, 2, 3, 4, 5)), ("TS", datetime.datetime(1969, 12, 31, 23, 59, 59, 999999)), ("TS", datetime.datetime(2001, 2, 3, 4, 5, 6, 7)),
    ("TM", datetime.time(0, 0, 0)), ("TM", datetime.time(23, 59, 59)), ("TM", datetime.time(1, 2, 3)),
    ("S", None), ("I", None), ("DT", None),
]
COLS = {"S": "S VARCHAR", "I": "I INT", "F": "F FLOAT", "D": "D NUMBER(20,5)", "B": "B BOOLEAN", "DT": "DT DATE",
        "TS": "TS TIMESTAMP_NTZ", "TM": "TM TIME"}
STYLES = ["pyformat_seq", "pyformat_dict", "format", "qmark"]
POSITIONS = ["values", "select_list", "where_eq", "where_ne", "in_list", "in_listvalue", "like", "update_set", "limit", "two_stmts", "two_strings", "two_strings", "merge"]
PAIRS = [("ends with backslash\\", "see $region"), ("\\", "$5"), ("a\\", "x $v1 y"), ("it's", "cost $price"), ("q'", "$v1"), ("\\'", "$$x$$"),
         ("100%", "%s"), ("%s", "100%"), ("a;b", "-- c"), ("/*", "*/"), ("'", "'"), ("$v1", "ends\\"), ("x\\", "it's $5"), ("?", "??")]
# python values that compare equal (and hash alike) but are different data
COLLIDE = [
    [True, 1.0, decimal.Decimal("1")], [False, 0.0, decimal.Decimal("0")], [2.5, decimal.Decimal("2.5")], [True, decimal.Decimal("1.0")],
    [1, 1.0], [1, True], [0, False], [7, decimal.Decimal("7")], ["1", 1], ["TRUE", True],
]
# placeholders inside the functions and constructs that fakesnow rewrites: ({n} marks parameter n)
FUNCTIONS = [
    ("DATEADD", "SELECT DATEADD(day, {0}, {1}::DATE)", [3, "2024-01-30"]),
    ("DATEDIFF", "SELECT DATEDIFF(day, {0}::DATE, {1}::DATE)", ["2024-01-01", "2024-01-05"]),
    ("REGEXP_SUBSTR", "SELECT REGEXP_SUBSTR({0}, {1})", ["ab12cd", "[0-9]+"]),
    ("REGEXP_REPLACE", "SELECT REGEXP_REPLACE({0}, {1}, {2})", ["a-b-c", "-", "+"]),
    ("TO_TIMESTAMP", "SELECT TO_TIMESTAMP({0})", ["2024-01-02 03:04:05"]),
    ("TO_DATE", "SELECT TO_DATE({0})", ["2024-01-02"]),
    ("TO_DECIMAL", "SELECT TO_DECIMAL({0}, 10, 2)", ["12.345"]),
    ("TRIM", "SELECT TRIM({0}, {1})", ["xxaxx", "x"]),
    ("SPLIT", "SELECT SPLIT({0}, {1})", ["a,b,c", ","]),
    ("SHA2", "SELECT SHA2({0})", ["it's"]),
    ("EQUAL_NULL", "SELECT EQUAL_NULL({0}, {1})", ["a", "a"]),
    ("ZEROIFNULL", "SELECT ZEROIFNULL({0})", [5]),
    ("DIV0", "SELECT DIV0({0}, {1})", [6, 3]),
    ("IFF", "SELECT IFF({0} = {1}, {2}, 'n')", [1, 1, "y%"]),
    ("COALESCE", "SELECT COALESCE({0}, {1})", [None, "fallback"]),
    ("ARRAY_SIZE", "SELECT ARRAY_SIZE(PARSE_JSON({0}))", ["[1, 2, 3]"]),
    ("JSON_PATH", "SELECT PARSE_JSON({0}):a::INT", ['{"a": 7}']),
    ("IDENTIFIER", "SELECT COUNT(*) FROM IDENTIFIER({0})", ["DECOY"]),
    ("OBJECT_CONSTRUCT", "SELECT OBJECT_CONSTRUCT('name', {0}, 'id', {1}, 'city', {2})", ["bob", 7, "it's"]),
    ("OBJECT_CONSTRUCT-null", "SELECT OBJECT_CONSTRUCT('z', {0}, 'skipped', NULL, 'a', {1})", ["last", "first"]),
    ("ARRAY_CONSTRUCT", "SELECT ARRAY_CONSTRUCT({0}, {1}, {2})", ["b", "a", "c"]),
    ("CASE", "SELECT CASE WHEN {0} > {1} THEN {2} ELSE {3} END", [2, 1, "big", "small"]),
    ("BETWEEN", "SELECT ID FROM DECOY WHERE ID BETWEEN {0} AND {1} ORDER BY ID", [2, 4]),
    ("ORDER-LIMIT", "SELECT ID FROM DECOY WHERE S <> {0} ORDER BY ID LIMIT {1} OFFSET {2}", ["zz", 3, 1]),
]
DECOYS = ["plain", "it's", "100%", "%s", "$v1", "a;b", "--", "héllo", "", "x", "\\", "a\\'b", "line1\nline2", "?"]


def _rand_string(r: random.Random) -> str:
    if r.random() < 0.7:
        return r.choice(NASTY)
    alphabet = "ab'\\%$?;-/*\n\" é✓🎉_"
    return "".join(r.choice(alphabet) for _ in range(r.randint(1, 12)))


def gen_cases(tier: str, seed: int):
    r = random.Random(f"{seed}:C08")
    n = 4000 if tier == "quick" else 60000
    for fn in range(len(FUNCTIONS)):
        for style in STYLES:
            yield {"kind": "in_function", "style": style, "fn": fn}
    for kw in KEYWORDS:
        for style in STYLES:
            for pos in ("select_list", "values") if tier == "quick" else ("select_list", "values", "where_eq", "update_set", "in_list"):
                yield core.jsonable({"kind": "param", "style": style, "pos": pos, "type": "S", "val": kw, "val2": "unset", "var": False})
    for i in range(n):
        style = STYLES[i % 4]
        x = r.random()
        if x < 0.1:
            yield core.jsonable({"kind": "executemany", "style": style, "vals": [_rand_string(r) for _ in range(r.randint(0, 6))]})
            continue
        if x < 0.14:
            yield {"kind": "paramstyle", "first": style, "second": r.choice(STYLES)}
            continue
        if x < 0.18:
            grp = r.choice(COLLIDE)
            a, b = r.sample(grp, 2)
            yield core.jsonable({"kind": "collide", "style": style, "first": a, "then": b, "how": r.choice(["same_stmt", "next_stmt", "other_conn"])})
            continue
        if x < 0.275 and x >= 0.26:
            yield {"kind": "text_again", "style": style, "vals": [_rand_string(r), _rand_string(r)]}
            continue
        if x < 0.26 and x >= 0.22:
            yield {"kind": "in_function", "style": style, "fn": r.randrange(len(FUNCTIONS))}
            continue
        if x < 0.22:
            t, v = r.choice(TYPED) if r.random() < 0.5 else ("S", _rand_string(r))
            yield core.jsonable({"kind": "dict_reuse", "type": t, "val": v, "how": r.choice(["insert_then_lookup", "executemany_same_dict", "twice"])})
            continue
        pos = r.choice(POSITIONS)
        if pos in ("values", "update_set", "select_list") and r.random() < 0.4:
            t, v = r.choice(TYPED)
        else:
            t, v = "S", _rand_string(r)
        v2 = _rand_string(r)
        if pos == "two_strings":
            t = "S"
            if r.random() < 0.7:
                v, v2 = r.choice(PAIRS)
            else:
                v = _rand_string(r)
        yield core.jsonable({
            "kind": "param", "style": style, "pos": pos, "type": t, "val": v, "val2": v2,
            "var": r.random() < 0.25,
        })


# ---------------------------------------------------------------------------
def qlit(v: Any) -> str:
    """The harness's own Snowflake literal quoter (independent of the connector's converter)."""
    if v is None:
        return "NULL"
    if isinstance(v, bool):
        return "TRUE" if v else "FALSE"
    if isinstance(v, (int, decimal.Decimal)):
        return str(v)
    if isinstance(v, float):
        return repr(v)
    if isinstance(v, datetime.datetime):
        return f"'{v.isoformat(sep=' ')}'::TIMESTAMP_NTZ"
    if isinstance(v, datetime.date):
        return f"'{v.isoformat()}'::DATE"
    if isinstance(v, datetime.time):
        return f"'{v.isoformat()}'::TIME"
    return "'" + v.replace("\\", "\\\\").replace("'", "''") + "'"


def ph(style: str, k: int) -> str:
    if style == "qmark":
        return "?"
    if style == "pyformat_dict":
        return f"%(p{k})s"
    return "%s"


def bind(style: str, vals: list) -> Any:
    if style == "pyformat_dict":
        return {f"p{k}": v for k, v in enumerate(vals)}
    return tuple(vals) if style != "format" else list(vals)


_state: dict[str, Any] = {}


def _connect(style: str) -> tuple[Any, Any]:
    """A fresh instance + connection configured with the given paramstyle."""
    saved = snowflake.connector.paramstyle
    snowflake.connector.paramstyle = "qmark" if style == "qmark" else ("format" if style == "format" else "pyformat")
    try:
        # half of the instances also carry a nop_regexes option: binding must not depend on it
        _state["n_inst"] = _state.get("n_inst", 0) + 1
        fs = core.new_fs(nop_regexes=[r"^CALL\b", r"^GRANT\s"]) if _state["n_inst"] % 2 == 0 else core.new_fs()
        conn = fs.connect("db1", "s1")
        _state["last_twin"] = fs.connect("db1", "s1")
    finally:
        snowflake.connector.paramstyle = saved
    return fs, conn


def setup_worker(env: core.Env) -> None:
    for style in STYLES:
        fs, conn = _connect(style)
        tw = _state["last_twin"]  # twin session (same paramstyle) for the literal statements: same data, separate tables
        cur = conn.cursor()
        cur.execute("CREATE TABLE DECOY (ID INT, S VARCHAR)")
        rows = ", ".join(f"({i}, {qlit(s)})" for i, s in enumerate(DECOYS))
        cur.execute(f"INSERT INTO DECOY VALUES {rows}")
        cur.execute("CREATE TABLE KEEP (ID INT)")
        _state[style] = (fs, conn, tw)


def _objects(fs: Any) -> list:
    s = core.snapshot(fs, data=False, include_fs=False)
    return s["tables"] + s["views"] + s["schemas"]


def run_case(case: dict, env: core.Env) -> None:
    case = core.unjson(case)
    if case["kind"] == "executemany":
        return _run_executemany(case, env)
    if case["kind"] == "paramstyle":
        return _run_paramstyle(case, env)
    if case["kind"] == "collide":
        return _run_collide(case, env)
    if case["kind"] == "in_function":
        return _run_in_function(case, env)
    if case["kind"] == "text_again":
        return _run_text_again(case, env)
    if case["kind"] == "dict_reuse":
        return _run_dict_reuse(case, env)
    style, pos, t, v, v2 = case["style"], case["pos"], case["type"], case["val"], case["val2"]
    fs, conn, tw = _state[style]
    cur, tcur = conn.cursor(), tw.cursor()
    env.cover("style_x_position", f"{style}/{pos}")
    env.cover("type", t)
    vclass = _vclass(v)
    pct = "%%" if style != "qmark" else "%"
    prefix_var = ""
    if case["var"]:
        cur.execute("SET pv = 'p%v'")
        tcur.execute("SET pv = 'p%v'")
    col = t
    objs_before = _objects(fs)
    stmts: list[tuple[str, Any, str]] = []  # (parametrised sql, params, literal sql)
    check: Any = None
    if pos == "values":
        cur.execute(f"CREATE OR REPLACE TABLE RT ({COLS[col]}, N INT)")
        tcur.execute(f"CREATE OR REPLACE TABLE RT_TWIN ({COLS[col]}, N INT)")
        stmts.append((f"INSERT INTO RT ({col}, N) VALUES ({ph(style, 0)}, {ph(style, 1)})", bind(style, [v, 7]),
                      f"INSERT INTO RT_TWIN ({col}, N) VALUES ({qlit(v)}, 7)"))
        check = ("table", col, [(v, 7)])
    elif pos == "update_set":
        cur.execute(f"CREATE OR REPLACE TABLE RT ({COLS[col]}, N INT)")
        tcur.execute(f"CREATE OR REPLACE TABLE RT_TWIN ({COLS[col]}, N INT)")
        cur.execute("INSERT INTO RT (N) VALUES (1), (2)")
        tcur.execute("INSERT INTO RT_TWIN (N) VALUES (1), (2)")
        stmts.append((f"UPDATE RT SET {col} = {ph(style, 0)} WHERE N = {ph(style, 1)}", bind(style, [v, 2]),
                      f"UPDATE RT_TWIN SET {col} = {qlit(v)} WHERE N = 2"))
        check = ("table", col, [(None, 1), (v, 2)])
    elif pos == "select_list":
        if t not in ("S", "I", "B"):
            t, v, vclass = "S", v2, _vclass(v2)
        stmts.append((f"SELECT {ph(style, 0)} AS X, 'k{pct}' AS K", bind(style, [v]), f"SELECT {qlit(v)} AS X, 'k%' AS K"))
        check = ("rows", [(v, "k%")])
    elif pos in ("where_eq", "where_ne"):
        op = "=" if pos == "where_eq" else "<>"
        stmts.append((f"SELECT ID FROM DECOY WHERE S {op} {ph(style, 0)} ORDER BY ID", bind(style, [v]),
                      f"SELECT ID FROM DECOY WHERE S {op} {qlit(v)} ORDER BY ID"))
        ids = [(i,) for i, s in enumerate(DECOYS) if (s == v) == (op == "=")]
        check = ("rows", ids)
    elif pos == "in_list":
        stmts.append((f"SELECT ID FROM DECOY WHERE S IN ({ph(style, 0)}, {ph(style, 1)}) ORDER BY ID", bind(style, [v, v2]),
                      f"SELECT ID FROM DECOY WHERE S IN ({qlit(v)}, {qlit(v2)}) ORDER BY ID"))
        check = ("rows", [(i,) for i, s in enumerate(DECOYS) if s in (v, v2)])
    elif pos == "in_listvalue":
        if style == "qmark":
            stmts.append(("SELECT ID FROM DECOY WHERE S IN (?, ?) ORDER BY ID", (v, v2),
                          f"SELECT ID FROM DECOY WHERE S IN ({qlit(v)}, {qlit(v2)}) ORDER BY ID"))
        else:
            stmts.append((f"SELECT ID FROM DECOY WHERE S IN ({ph(style, 0)}) ORDER BY ID", bind(style, [[v, v2]]),
                          f"SELECT ID FROM DECOY WHERE S IN ({qlit(v)}, {qlit(v2)}) ORDER BY ID"))
        check = ("rows", [(i,) for i, s in enumerate(DECOYS) if s in (v, v2)])
    elif pos == "like":
        # the parameter is a LIKE pattern: compared with the literal twin only (pattern semantics are the engine's)
        stmts.append((f"SELECT ID FROM DECOY WHERE S LIKE {ph(style, 0)} AND S NOT LIKE 'zz{pct}' ORDER BY ID", bind(style, [v]),
                      f"SELECT ID FROM DECOY WHERE S LIKE {qlit(v)} AND S NOT LIKE 'zz%' ORDER BY ID"))
        check = ("twin",)
    elif pos == "limit":
        k = len(str(v)) % 5
        stmts.append((f"SELECT ID FROM DECOY WHERE S <> {ph(style, 0)} ORDER BY ID LIMIT {ph(style, 1)}", bind(style, [v, k]),
                      f"SELECT ID FROM DECOY WHERE S <> {qlit(v)} ORDER BY ID LIMIT {k}"))
        check = ("rows", [(i,) for i, s in enumerate(DECOYS) if s != v][:k])
    elif pos == "two_strings":
        cur.execute("CREATE OR REPLACE TABLE RT (S VARCHAR, S2 VARCHAR, N INT)")
        tcur.execute("CREATE OR REPLACE TABLE RT_TWIN (S VARCHAR, S2 VARCHAR, N INT)")
        if case["var"]:
            for c_ in (cur, tcur):
                c_.execute("SET region = 42")
                c_.execute("SET v1 = 'vee'")
        stmts.append((f"INSERT INTO RT (S, S2, N) VALUES ({ph(style, 0)}, {ph(style, 1)}, {ph(style, 2)})", bind(style, [v, v2, 1]),
                      f"INSERT INTO RT_TWIN (S, S2, N) VALUES ({qlit(v)}, {qlit(v2)}, 1)"))
        col = "S, S2"
        check = ("table2", [(v, v2, 1)])
    elif pos == "merge":
        # the value travels through MERGE (source row, SET, VALUES and a WHEN condition)
        if t != "S" or style == "qmark":
            t, v = "S", (v if isinstance(v, str) else v2)
            vclass = _vclass(v)
        if style == "qmark":
            return  # MERGE with server-side bindings: not supported by the fake (parameter count error) - outside this comparison
        for c_, name in ((cur, "RT"), (tcur, "RT_TWIN")):
            c_.execute(f"CREATE OR REPLACE TABLE {name} (S VARCHAR, N INT)")
            c_.execute(f"INSERT INTO {name} VALUES ('old', 1), ('keep', 3)")
        m = ("MERGE INTO {tbl} t USING (SELECT {a} AS S, 1 AS N UNION ALL SELECT {b} AS S, 2 AS N) s ON t.N = s.N "
             "WHEN MATCHED AND s.S = {c} THEN UPDATE SET S = s.S WHEN NOT MATCHED THEN INSERT (S, N) VALUES (s.S, s.N)")
        stmts.append((m.format(tbl="RT", a=ph(style, 0), b=ph(style, 1), c=ph(style, 2)), bind(style, [v, v2, v]),
                      m.format(tbl="RT_TWIN", a=qlit(v), b=qlit(v2), c=qlit(v))))
        col = "S"
        check = ("table", "S", [(v, 1), (v2, 2), ("keep", 3)])
    elif pos == "two_stmts":
        cur.execute("CREATE OR REPLACE TABLE RT (S VARCHAR, N INT)")
        tcur.execute("CREATE OR REPLACE TABLE RT_TWIN (S VARCHAR, N INT)")
        stmts.append((f"INSERT INTO RT (S, N) VALUES ({ph(style, 0)}, {ph(style, 1)})", bind(style, [v, 1]),
                      f"INSERT INTO RT_TWIN (S, N) VALUES ({qlit(v)}, 1)"))
        stmts.append((f"INSERT INTO RT (S, N) VALUES ({ph(style, 0)}, {ph(style, 1)})", bind(style, [v2, 2]),
                      f"INSERT INTO RT_TWIN (S, N) VALUES ({qlit(v2)}, 2)"))
        col = "S"
        check = ("table", "S", [(v, 1), (v2, 2)])
    if case["var"] and pos in ("select_list",):
        # a session variable whose value contains % next to a parameter
        psql, pp, lsql = stmts[0]
        stmts[0] = (psql.replace(" AS X,", " AS X, $pv AS PV,"), pp, lsql.replace(" AS X,", " AS X, 'p%v' AS PV,"))
        check = ("rows", [(v, "p%v", "k%")])
        prefix_var = "/with-%-variable"

    last = None
    for psql, pp, lsql in stmts:
        c0 = tap.CALLS
        out = core.run_stmt(cur, psql, pp)
        n_param = tap.CALLS - c0
        c0 = tap.CALLS
        tout = core.run_stmt(tcur, lsql)
        n_lit = tap.CALLS - c0
        if not tout["ok"]:
            env.count("twin_rejected")
            env.cover("twin_rejected", f"{pos}/{vclass}")
            if not out["ok"] and isinstance(v, str) and out["exc"]["kind"] != "snowflake":
                # the value sinks the statement however it is handed over: it is being read as SQL, not as data
                env.witness(f"C08/rejected-with-its-literal-twin/{style}/{pos}/{vclass}/{out['exc']['cls']}", f"{psql} {pp!r}: {out['exc']}"[:700])
            return  # the literal form itself is not accepted: outside the comparable domain
        if not out["ok"]:
            env.witness(f"C08/rejected/{style}/{pos}/{vclass}{prefix_var}/{out['exc']['cls']}", f"{psql} {pp!r}: {out['exc']}"[:700])
            return
        env.count("cmp_tap_statements")
        if n_param != n_lit:
            env.witness(f"C08/structure/engine-statements/{style}/{pos}", f"{psql} {pp!r}: {n_param} engine calls, literal twin {n_lit}")
        last = (out, tout)
    out, tout = last
    if check[0] == "rows":
        env.count("cmp_roundtrip")
        got = [tuple(x) for x in out["rows"]]
        if not _rows_equal(got, check[1]):
            env.witness(f"C08/value/{style}/{pos}/{vclass}{prefix_var}", f"{stmts[0][0]} {stmts[0][1]!r} -> {got} expected {check[1]}")
    if check[0] in ("rows", "twin"):
        env.count("cmp_twin_rows")
        if not _rows_equal([tuple(x) for x in out["rows"]], [tuple(x) for x in tout["rows"]]):
            env.witness(f"C08/twin-differs/{style}/{pos}/{vclass}", f"{stmts[0][0]} {stmts[0][1]!r} -> {out['rows']} literal twin {tout['rows']}")
    if check[0] == "table2":
        env.count("cmp_roundtrip")
        got = [tuple(x) for x in cur.execute("SELECT S, S2, N FROM RT").fetchall()]
        if got != check[1]:
            env.witness(f"C08/value/{style}/{pos}/{vclass}+{_vclass(v2)}", f"{stmts[0][0]} {stmts[0][1]!r} -> table {got} expected {check[1]}")
    if check[0] == "table":
        env.count("cmp_roundtrip")
        got = sorted((tuple(x) for x in cur.execute(f"SELECT {col}, N FROM RT").fetchall()), key=lambda x: x[1])
        tgot = sorted((tuple(x) for x in tcur.execute(f"SELECT {col}, N FROM RT_TWIN").fetchall()), key=lambda x: x[1])
        if not _rows_equal(got, check[2]):
            env.witness(f"C08/value/{style}/{pos}/{vclass}", f"{stmts} -> table {got} expected {check[2]}")
        env.count("cmp_twin_rows")
        if not _rows_equal(got, tgot):
            env.witness(f"C08/twin-differs/{style}/{pos}/{vclass}", f"{stmts[0][0]} {stmts[0][1]!r} -> {got} literal twin {tgot}")
    env.count("cmp_structure")
    objs_after = _objects(fs)
    expect = set(map(tuple, objs_before)) | ({("DB1", "S1", "RT"), ("DB1", "S1", "RT_TWIN")} if check[0] in ("table", "table2") else set())
    if set(map(tuple, objs_after)) != expect:
        env.witness(f"C08/structure/objects-changed/{style}/{pos}", f"{stmts[0][0]} {stmts[0][1]!r}: {sorted(expect ^ set(map(tuple, objs_after)))}")
    dec = cur.execute("SELECT COUNT(*) FROM DECOY").fetchall()
    if dec != [(len(DECOYS),)]:
        env.witness(f"C08/structure/decoy-rows-changed/{style}/{pos}", f"{stmts[0][0]} {stmts[0][1]!r}: {dec}")
        # restore fixture
        cur.execute("DELETE FROM DECOY")
        cur.execute("INSERT INTO DECOY VALUES " + ", ".join(f"({i}, {qlit(s)})" for i, s in enumerate(DECOYS)))
    if t != "S" or (isinstance(v, str) and any(ch in v for ch in "'\\\"%$?;-/*\n") or (isinstance(v, str) and not v.isascii())):
        env.nontrivial((style, pos, t, repr(v), repr(v2), case["var"]))


def _vclass(v: Any) -> str:
    if v is None:
        return "null"
    if not isinstance(v, str):
        return type(v).__name__
    feats = []
    for name, chars in (("quote", "'"), ("backslash", "\\"), ("percent", "%"), ("dollar", "$"), ("qmark", "?"),
                        ("newline", "\n\r\t"), ("semicolon", ";"), ("comment", "-/*")):
        if any(ch in v for ch in chars):
            feats.append(name)
    if not v.isascii():
        feats.append("nonascii")
    return "str:" + ("+".join(feats) if feats else "plain")


def _eq(a: Any, b: Any) -> bool:
    if a is None or b is None:
        return a is b
    if isinstance(b, bool) or isinstance(a, bool):
        return a is b
    if isinstance(b, float) and isinstance(a, float):
        return a == b
    if isinstance(b, decimal.Decimal):
        return isinstance(a, decimal.Decimal) and a == b
    if isinstance(b, int) and not isinstance(b, bool):
        return isinstance(a, int) and a == b
    return type(a) is type(b) and a == b


def _rows_equal(a: list, b: list) -> bool:
    return len(a) == len(b) and all(len(x) == len(y) and all(_eq(p, q) for p, q in zip(x, y)) for x, y in zip(a, b))


def _run_executemany(case: dict, env: core.Env) -> None:
    style = case["style"]
    fs, conn, tw = _state[style]
    cur, tcur = conn.cursor(), tw.cursor()
    cur.execute("CREATE OR REPLACE TABLE EM (S VARCHAR, N INT)")
    tcur.execute("CREATE OR REPLACE TABLE EM_LOOP (S VARCHAR, N INT)")
    sql = f"INSERT INTO EM (S, N) VALUES ({ph(style, 0)}, {ph(style, 1)})"
    if len(case["vals"]) % 2 == 1:
        # next to a session variable whose value contains % (substituted after the parameters, row after row)
        for c_ in (cur, tcur):
            c_.execute("SET pv = '50% off'")
        sql = f"INSERT INTO EM (S, N) SELECT {ph(style, 0)}, {ph(style, 1)} WHERE $pv = '50{'%%' if style != 'qmark' else '%'} off'"
    seq = [bind(style, [v, i]) for i, v in enumerate(case["vals"])]
    if style == "pyformat_dict" and not seq:
        seq = []
    env.count("cmp_executemany")
    try:
        cur.executemany(sql, seq)
    except Exception as e:  # noqa: BLE001
        env.witness(f"C08/executemany/rejected/{style}/{type(e).__name__}", f"{sql} {seq!r}: {e}"[:500])
        return
    for p in seq:
        tcur.execute(sql.replace("EM ", "EM_LOOP "), p)
    a = Counter(tuple(x) for x in cur.execute("SELECT S, N FROM EM").fetchall())
    b = Counter(tuple(x) for x in tcur.execute("SELECT S, N FROM EM_LOOP").fetchall())
    want = Counter((v, i) for i, v in enumerate(case["vals"]))
    if a != b:
        env.witness(f"C08/executemany/differs-from-loop/{style}", f"{dict(a)} vs loop {dict(b)}")
    elif a != want:
        env.witness(f"C08/executemany/wrong-rows/{style}", f"{dict(a)} expected {dict(want)}")
    if len(case["vals"]) >= 2:
        env.nontrivial(("em", style, case["vals"]))


def _run_text_again(case: dict, env: core.Env) -> None:
    """The same statement text on the same cursor, with other parameter values and after a session variable changed: every
    execution binds its own parameters and sees the variables as they are then."""
    style = case["style"]
    fs, conn, tw = _state[style]
    cur = conn.cursor()
    a, b = case["vals"]
    env.count("cmp_roundtrip")
    sql = f"SELECT {ph(style, 0)} AS P, $tv AS V, {ph(style, 1)} AS N"
    try:
        cur.execute("SET tv = 'first'")
        r1 = cur.execute(sql, bind(style, [a, 1])).fetchall()
        cur.execute("SET tv = 'second'")
        r2 = cur.execute(sql, bind(style, [b, 2])).fetchall()
        cur.executemany("INSERT INTO KEEP (ID) SELECT " + ph(style, 0) + " WHERE $tv = 'second'", [bind(style, [91]), bind(style, [92])]) if style != "pyformat_dict" else None
        cur.execute("UNSET tv")
    except Exception as e:  # noqa: BLE001
        env.witness(f"C08/same-text-again/rejected/{style}/{type(e).__name__}", f"{sql}: {e}"[:300])
        return
    if [tuple(x) for x in r1] != [(a, "first", 1)] or [tuple(x) for x in r2] != [(b, "second", 2)]:
        env.witness(f"C08/same-text-again/stale-values/{'server-side' if style == 'qmark' else 'client-side'}", f"{sql}: first {r1} then {r2}; expected {[(a, 'first', 1)]} then {[(b, 'second', 2)]}")
    o = core.run_stmt(cur, sql, bind(style, [a, 3]))
    if o["ok"]:
        env.witness(f"C08/same-text-again/unset-variable-still-answered/{'server-side' if style == 'qmark' else 'client-side'}", f"{sql} after UNSET tv -> {o['rows']}")
    if style != "pyformat_dict":
        n = conn.cursor().execute("SELECT COUNT(*) FROM KEEP WHERE ID IN (91, 92)").fetchall()
        if n != [(2,)]:
            env.witness(f"C08/same-text-again/executemany-rows/{style}", f"KEEP holds {n} of the two rows")
        conn.cursor().execute("DELETE FROM KEEP WHERE ID IN (91, 92)")
    env.nontrivial(("text_again", style, a, b))


def _run_in_function(case: dict, env: core.Env) -> None:
    """Parameters inside rewritten functions: the same result as with the values written as literals."""
    style = case["style"]
    name, tmpl, vals = FUNCTIONS[case["fn"]]
    fs, conn, tw = _state[style]
    psql = tmpl.format(*[ph(style, k) for k in range(len(vals))])
    lsql = tmpl.format(*[qlit(v) for v in vals])
    if style != "qmark":
        lsql_run = lsql
    else:
        lsql_run = lsql
    env.count("cmp_twin_rows")
    env.cover("in_function", f"{name}/{style}")
    tout = core.run_stmt(tw.cursor(), lsql_run)
    if not tout["ok"]:
        env.count("twin_rejected")
        return
    out = core.run_stmt(conn.cursor(), psql, bind(style, vals))
    binding = "server-side" if style == "qmark" else "client-side"
    if not out["ok"]:
        env.witness(f"C08/in-function/{name}/{binding}/rejected/{out['exc']['cls']}", f"{psql} {vals!r}: {out['exc']['msg'][:200]} (as literals: {tout['rows']})")
    elif [tuple(x) for x in out["rows"]] != [tuple(x) for x in tout["rows"]]:
        env.witness(f"C08/in-function/{name}/{binding}/differs-from-literals", f"{psql} {vals!r} -> {out['rows']} but {lsql} -> {tout['rows']}")
    env.nontrivial(("in_function", name, style))


def _kind_of(v: Any) -> str:
    if isinstance(v, bool):
        return "bool"
    if isinstance(v, (int, float, decimal.Decimal)):
        return "number"
    return type(v).__name__


def _arrived_as(sent: Any, got: Any) -> bool:
    """The value read back is the value sent, of the same kind of data. A bound Decimal legitimately comes back as a
    number or as its text (the connector quotes Decimals); a bool only as a bool; a number never as a bool or text."""
    if isinstance(sent, bool):
        return got is sent
    if isinstance(sent, decimal.Decimal):
        if isinstance(got, str):
            try:
                return decimal.Decimal(got) == sent
            except decimal.InvalidOperation:
                return False
        return not isinstance(got, bool) and isinstance(got, (int, float, decimal.Decimal)) and got == sent
    if isinstance(sent, (int, float)):
        return not isinstance(got, bool) and isinstance(got, (int, float, decimal.Decimal)) and float(got) == float(sent)
    return type(got) is type(sent) and got == sent


def _run_collide(case: dict, env: core.Env) -> None:
    """Two values that are == in Python but different data are bound one after the other: each arrives as itself."""
    style, a, b, how = case["style"], case["first"], case["then"], case["how"]
    fs, conn, tw = _state[style]
    env.count("cmp_roundtrip")
    env.cover("collide", f"{_kind_of(a)}:{type(a).__name__}-then-{type(b).__name__}/{how}")
    cur = conn.cursor()
    if how == "same_stmt":
        out = core.run_stmt(cur, f"SELECT {ph(style, 0)} AS X, {ph(style, 1)} AS Y", bind(style, [a, b]))
        got = list(out["rows"][0]) if out["ok"] and out["rows"] else None
    else:
        o1 = core.run_stmt(cur, f"SELECT {ph(style, 0)} AS X", bind(style, [a]))
        c2 = tw.cursor() if how == "other_conn" else conn.cursor()
        out = core.run_stmt(c2, f"SELECT {ph(style, 0)} AS Y", bind(style, [b]))
        got = [o1["rows"][0][0], out["rows"][0][0]] if o1["ok"] and out["ok"] and o1["rows"] and out["rows"] else None
        if not o1["ok"]:
            out = o1
    if got is None:
        env.witness(f"C08/rejected/{style}/select_list/{type(a).__name__}+{type(b).__name__}/{out['exc']['cls'] if out.get('exc') else 'no-row'}",
                    f"{a!r}, {b!r}: {out.get('exc')}")
        return
    for sent, g, which in ((a, got[0], "first"), (b, got[1], "second")):
        if not _arrived_as(sent, g):
            env.witness(f"C08/value/{style}/select_list/{type(sent).__name__}-arrives-as-{type(g).__name__}/bound-{which}-of-equal-pair",
                        f"bound {a!r} then {b!r} ({how}): read back {got!r}")
    env.nontrivial(("collide", style, repr(a), repr(b), how))


def _run_dict_reuse(case: dict, env: core.Env) -> None:
    """One params dict object bound more than once: every execution binds the caller's values and leaves the dict alone."""
    t, v, how = case["type"], case["val"], case["how"]
    fs, conn, tw = _state["pyformat_dict"]
    cur = conn.cursor()
    env.count("cmp_roundtrip")
    env.cover("dict_reuse", f"{how}/{t}")
    cur.execute(f"CREATE OR REPLACE TABLE RT ({COLS[t]}, N INT)")
    p = {"p0": v, "p1": 7}
    keep = dict(p)
    sql = f"INSERT INTO RT ({t}, N) VALUES (%(p0)s, %(p1)s)"
    try:
        if how == "executemany_same_dict":
            cur.executemany(sql, [p, p, p])
            want = [(v, 7)] * 3
        elif how == "twice":
            cur.execute(sql, p)
            cur.execute(sql, p)
            want = [(v, 7)] * 2
        else:
            cur.execute(sql, p)
            want = [(v, 7)]
            if v is not None and t not in ("F",):
                look = cur.execute(f"SELECT N FROM RT WHERE {t} = %(p0)s AND N = %(p1)s", p).fetchall()
                if [tuple(x) for x in look] != [(7,)]:
                    env.witness(f"C08/dict-reuse/{how}/lookup-misses/{_vclass(v)}", f"{p!r}: look-up with the dict used for the insert -> {look}")
        got = [tuple(x) for x in cur.execute(f"SELECT {t}, N FROM RT").fetchall()]
    except Exception as e:  # noqa: BLE001
        env.witness(f"C08/dict-reuse/{how}/rejected/{_vclass(v)}/{type(e).__name__}", f"{p!r}: {e}"[:400])
        return
    if not _rows_equal(got, want):
        env.witness(f"C08/dict-reuse/{how}/wrong-rows/{_vclass(v)}", f"{keep!r}: table {got} expected {want}")
    if p != keep or any(type(p[k]) is not type(keep[k]) for k in keep):
        env.witness(f"C08/dict-reuse/{how}/callers-dict-changed", f"{keep!r} became {p!r}")
    env.nontrivial(("dict_reuse", how, t, repr(v)))


def _run_paramstyle(case: dict, env: core.Env) -> None:
    first, second = case["first"], case["second"]
    env.count("cmp_paramstyle")
    saved = snowflake.connector.paramstyle
    try:
        fs, c1 = _connect(first)
        # flip the module-level paramstyle after the connection was made
        snowflake.connector.paramstyle = "qmark" if second == "qmark" else ("format" if second == "format" else "pyformat")
        o1 = core.run_stmt(c1.cursor(), f"SELECT {ph(first, 0)} AS X", bind(first, ["it's 100%"]))
        if not o1["ok"] or o1["rows"] != [("it's 100%",)]:
            env.witness(f"C08/paramstyle/not-fixed-at-connect/{first}-then-{second}", f"{o1.get('exc') or o1.get('rows')}")
        c2 = fs.connect("db1", "s1")
        o2 = core.run_stmt(c2.cursor(), f"SELECT {ph(second, 0)} AS X", bind(second, ["it's 100%"]))
        if not o2["ok"] or o2["rows"] != [("it's 100%",)]:
            env.witness(f"C08/paramstyle/new-connection-ignores-configured-style/{first}-then-{second}", f"{o2.get('exc') or o2.get('rows')}")
        # the paramstyle argument of connect() outranks the module-level setting
        if hasattr(fs, "connect"):
            arg_style = "qmark" if second != "qmark" else "pyformat"
            c3 = fs.connect("db1", "s1", paramstyle=arg_style)
            s3 = "qmark" if arg_style == "qmark" else "pyformat_seq"
            o4 = core.run_stmt(c3.cursor(), f"SELECT {ph(s3, 0)} AS X, {ph(s3, 1)} AS Y", bind(s3, ["arg 100%", 5]))
            if not o4["ok"] or o4["rows"] != [("arg 100%", 5)]:
                env.witness(f"C08/paramstyle/connect-argument-ignored/{arg_style}-under-module-{second}", f"{o4.get('exc') or o4.get('rows')}")
        # and the first connection is still on its own style
        o3 = core.run_stmt(c1.cursor(), f"SELECT {ph(first, 0)} AS X", bind(first, ["again"]))
        if not o3["ok"] or o3["rows"] != [("again",)]:
            env.witness(f"C08/paramstyle/changed-by-later-connect/{first}-then-{second}", f"{o3.get('exc') or o3.get('rows')}")
        fs.duck_conn.close()
    finally:
        snowflake.connector.paramstyle = saved
    env.nontrivial(("ps", first, second))
