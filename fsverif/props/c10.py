"""C10 Rewritten Snowflake functions return what Snowflake documents.

Monitor: pure-Python reference implementations (written from the Snowflake function
reference) evaluated beside the real statement, one expression per statement, in several
syntactic contexts; value, Python type and context-invariance are compared; unsupported
forms must raise rather than answer."""

from __future__ import annotations

import calendar
import datetime
import decimal
import hashlib
import json
import random
import re
from typing import Any

from fsverif import core

ID = "C10"
LEVEL = "exploration"
BUDGET = {"quick": 80, "thorough": 600}
RULE = (
    "case = (function form, generated in-domain arguments, expression context {select list, nested in COALESCE/CASE, CTE, view "
    "body, CTAS then read back, WHERE}); the reference value comes from a Python implementation of the documented semantics. "
    "Non-trivial = the reference value is not NULL and was compared; distinct = distinct (form, arguments, context). "
    "Unsupported forms (extra REGEXP_REPLACE arguments, TO_DECIMAL format, SHA2 512) must raise."
)
REQUIRED = ["cmp_value", "cmp_pytype", "cmp_context", "cmp_unsupported_raises", "cmp_seed_repeatable"]
ASSUMPTIONS = [
    "regular expressions are drawn from a small grammar common to POSIX ERE, RE2 and Python re",
    "DATEDIFF(week) and sub-microsecond precision are not generated (week start / precision are session settings)",
    "the references are the harness author's reading of the Snowflake function reference",
]

D = decimal.Decimal
decimal.getcontext().prec = 60
CONTEXTS = ["select", "nested", "cte", "view", "ctas", "where", "dml", "merge"]
UNSUPPORTED = "<<must-raise>>"
ERROR = "<<error>>"


def q(s: str) -> str:
    return "'" + s.replace("\\", "\\\\").replace("'", "''") + "'"


# ---------------------------------------------------------------------------
# argument generators
# ---------------------------------------------------------------------------
WORDS = ["abc", "hello world", "aXbXc", "a1b22c333", "foo.bar", "2020-01-02", "  padded  ", "xxaxx", "a,b,,c", "one two  three", "aaa", ""]
UNI = ["Ünï", "é✓"]  # only for functions whose semantics on non-ASCII text is unambiguous
PATTERNS = ["\\bab", "\\b[a-z]+\\b", "d\\b", "b", "o", "[0-9]+", "a+", "[a-z]+", "(a)(b)", "x|X", "o w", "\\d+", "\\w+", "[^a-z]", "l+", "(\\w)(\\d)", "z"]


def rand_date(r: random.Random) -> datetime.date:
    if r.random() < 0.5:
        return r.choice([datetime.date(2020, 1, 31), datetime.date(2020, 2, 29), datetime.date(2019, 12, 31), datetime.date(1970, 1, 1),
                         datetime.date(1969, 12, 31), datetime.date(2021, 3, 31), datetime.date(2000, 2, 29), datetime.date(1999, 12, 31),
                         datetime.date(2024, 8, 31), datetime.date(2023, 5, 30), datetime.date(1600, 2, 29), datetime.date(2399, 11, 30)])
    return datetime.date(r.randint(1601, 2399), r.randint(1, 12), r.randint(1, 28))


def rand_ts(r: random.Random) -> datetime.datetime:
    d = rand_date(r)
    if r.random() < 0.4:
        t = r.choice([(0, 0, 0, 0), (23, 59, 59, 999999), (0, 59, 59, 0), (12, 0, 0, 500000), (23, 0, 0, 0)])
        return datetime.datetime(d.year, d.month, d.day, *t)
    return datetime.datetime(d.year, d.month, d.day, r.randint(0, 23), r.randint(0, 59), r.randint(0, 59), r.choice([0, 0, r.randint(0, 999999)]))


def add_months(d: Any, n: int) -> Any:
    m0 = d.year * 12 + (d.month - 1) + n
    y, m = divmod(m0, 12)
    m += 1
    day = min(d.day, calendar.monthrange(y, m)[1])
    return d.replace(year=y, month=m, day=day)


def round_half_away(x: decimal.Decimal, scale: int) -> decimal.Decimal:
    return x.quantize(D(1).scaleb(-scale), rounding=decimal.ROUND_HALF_UP)


# ---------------------------------------------------------------------------
# forms: each returns (sql expression, expected value | UNSUPPORTED | ERROR, feature tag)
# ---------------------------------------------------------------------------
def f_regexp_replace(r: random.Random):
    s, p = r.choice(WORDS), r.choice(PATTERNS)
    x = r.random()
    if x < 0.12:
        return f"REGEXP_REPLACE({q(s)}, {q(p)}, 'X', {r.randint(1, 3)})", UNSUPPORTED, "extra-args"
    if x < 0.4:
        return f"REGEXP_REPLACE({q(s)}, {q(p)})", re.sub(p, "", s), "no-replacement"
    rep = r.choice(["X", "", "<>", "-"])
    if x < 0.6:
        p2 = r.choice(PATTERNS)
        rep2 = r.choice(["Y", "", "#"])
        inner = re.sub(p, rep, s)
        return (f"REGEXP_REPLACE(REGEXP_REPLACE({q(s)}, {q(p)}, {q(rep)}), {q(p2)}, {q(rep2)})", re.sub(p2, rep2, inner), "nested-in-regexp_replace")
    return f"REGEXP_REPLACE({q(s)}, {q(p)}, {q(rep)})", re.sub(p, rep.replace("\\", "\\\\"), s), "replacement"


def f_regexp_substr(r: random.Random):
    s, p = r.choice(WORDS), r.choice(PATTERNS)
    x = r.random()
    if x < 0.3:
        m = re.search(p, s)
        return f"REGEXP_SUBSTR({q(s)}, {q(p)})", (m.group(0) if m else None), "basic"
    pos = r.randint(1, max(1, len(s)))
    occ = r.randint(1, 3)
    if x < 0.6:
        ms = list(re.finditer(p, s[pos - 1:]))
        ms = [m for m in ms if m.group(0) != "" or True]
        return f"REGEXP_SUBSTR({q(s)}, {q(p)}, {pos}, {occ})", (ms[occ - 1].group(0) if len(ms) >= occ else None), "position-occurrence"
    if x < 0.8:
        ms = list(re.finditer(p, s[pos - 1:], re.I))
        return f"REGEXP_SUBSTR({q(s)}, {q(p)}, {pos}, {occ}, 'i')", (ms[occ - 1].group(0) if len(ms) >= occ else None), "case-insensitive"
    if "(" not in p:
        p = "([a-z]+)(\\d+)" if r.random() < 0.5 else "(\\w)(\\d)"
    ngroups = re.compile(p).groups
    g = r.randint(1, ngroups)
    ms = list(re.finditer(p, s))
    exp = ms[0].group(g) if ms else None
    y = r.random()
    if y < 0.3:
        # a group number asks for that group whatever the other parameters are ('e' is implied)
        flags = r.choice(["c", "", "i", "ce", "ie"])
        ms2 = list(re.finditer(p, s, re.I if "i" in flags else 0))
        return f"REGEXP_SUBSTR({q(s)}, {q(p)}, 1, 1, {q(flags)}, {g})", (ms2[0].group(g) if ms2 else None), "group-without-e"
    if y < 0.4:
        return f"REGEXP_SUBSTR({q(s)}, {q(p)}, 1, 1, 'c', 0)", (ms[0].group(0) if ms else None), "group-zero"
    if y < 0.7:
        return f"REGEXP_SUBSTR({q(s)}, {q(p)}, 1, 1, 'e', {g})", exp, "group"
    return f"REGEXP_SUBSTR({q(s)}, {q(p)}, 1, 1, 'e')", (ms[0].group(1) if ms else None), "e-default-group"


def f_split(r: random.Random):
    s = r.choice(WORDS + UNI)
    sep = r.choice([",", " ", "X", ".", "b", "  ", "-"])
    return f"SPLIT({q(s)}, {q(sep)})", ("json", s.split(sep)), "split"


def f_trim(r: random.Random):
    s = r.choice(WORDS + UNI + ["xyhixy", "--a--", "\t tab", "  both  ", "xxaxx"])
    side = r.random()
    if side < 0.3:
        # the one-sided forms
        fn, strip = r.choice([("LTRIM", str.lstrip), ("RTRIM", str.rstrip)])
        if r.random() < 0.5:
            return f"{fn}({q(s)})", strip(s, " "), f"{fn.lower()}/spaces"
        chars = r.choice(["x", "xy", " ", "-", "ab", "a "])
        return f"{fn}({q(s)}, {q(chars)})", strip(s, chars), f"{fn.lower()}/characters"
    if r.random() < 0.5:
        return f"TRIM({q(s)})", s.strip(" "), "spaces"
    chars = r.choice(["x", "xy", " ", "-", "ab", "a "])
    return f"TRIM({q(s)}, {q(chars)})", s.strip(chars), "characters"


def f_to_date(r: random.Random):
    x = r.random()
    if x < 0.5:
        d = rand_date(r)
        return f"TO_DATE({q(d.isoformat())})", d, "string"
    t = rand_ts(r)
    if x < 0.8:
        return f"TO_DATE({q(t.isoformat(sep=' '))}::TIMESTAMP_NTZ)", t.date(), "timestamp"
    return f"TO_DATE({q(t.isoformat(sep=' '))})", t.date(), "timestamp-string"


def f_to_timestamp(r: random.Random):
    x = r.random()
    fn = r.choice(["TO_TIMESTAMP", "TO_TIMESTAMP_NTZ"])
    if x < 0.4:
        t = rand_ts(r).replace(microsecond=0)
        return f"{fn}({q(t.isoformat(sep=' '))})", t, f"{fn}/string"
    if x < 0.55:
        t = rand_ts(r)
        return f"TO_TIMESTAMP({q(t.isoformat(sep=' '))})", t, "TO_TIMESTAMP/string-fraction"
    if x < 0.62:
        # a string of digits is a number of seconds as well, and the result is a TIMESTAMP_NTZ like any other
        n = r.choice([0, 1, 86400, 1709164800, -86400, -1, r.randint(0, 4102444800)])
        return f"{fn}({q(str(n))})", datetime.datetime(1970, 1, 1) + datetime.timedelta(seconds=n), f"{fn}/string-of-digits"
    if x < 0.85:
        n = r.choice([0, 1, 86399, 86400, 1700000000, 2147483647, 2147483648, r.randint(0, 4102444800)])
        return f"TO_TIMESTAMP({n})", datetime.datetime(1970, 1, 1) + datetime.timedelta(seconds=n), "TO_TIMESTAMP/integer-seconds"
    if x < 0.93:
        n = r.choice([-1, -86400, -86401, -2208988800, -r.randint(1, 10**9)])
        return f"TO_TIMESTAMP({n})", datetime.datetime(1970, 1, 1) + datetime.timedelta(seconds=n), "TO_TIMESTAMP/negative-seconds"
    n = r.choice([0, 1500, 1700000000123, 999])
    return f"TO_TIMESTAMP({n}, 3)", datetime.datetime(1970, 1, 1) + datetime.timedelta(milliseconds=n), "TO_TIMESTAMP/scale-3"


def f_to_decimal(r: random.Random):
    fn = r.choice(["TO_DECIMAL", "TO_NUMBER", "TO_NUMERIC", "TRY_TO_DECIMAL", "TRY_TO_NUMBER", "TRY_TO_NUMERIC"])
    is_try = fn.startswith("TRY")
    x = r.random()
    if x < 0.08:
        return f"{fn}('12.3', '99.9')", UNSUPPORTED, "format-argument"
    p = r.choice([38, 10, 5, 4, 20])
    s = r.choice([0, 1, 2, 5]) if p > 5 else r.choice([0, 1, 2])
    if x < 0.2:
        bad = r.choice(["x", "1.2.3", "abc", "", "12a"])
        exp: Any = None if is_try else ERROR
        return f"{fn}({q(bad)}, {p}, {s})", exp, "non-numeric-string"
    digits = r.randint(1, 8)
    frac = r.randint(0, 4)
    v = D(r.randint(0, 10**digits - 1)).scaleb(-frac) * r.choice([1, -1])
    if r.random() < 0.35:  # midpoints
        v = (D(r.randint(0, 999)) + D("0.5")).scaleb(-s) * r.choice([1, -1])
    rounded = round_half_away(v, s)
    fits = len(rounded.as_tuple().digits) - s <= p - s or rounded == 0
    txt = format(v, "f")
    if x < 0.65:
        form, arg = "string", q(txt)
    else:
        form, arg = "numeric-literal", txt
    mid = (v.scaleb(s) % 1 == D("0.5")) or ((-v).scaleb(s) % 1 == D("0.5"))
    scale_down = -v.as_tuple().exponent > s
    tag = f"{form}/{'midpoint' if mid else 'scale-down' if scale_down else 'exact'}"
    if not fits:
        return f"{fn}({arg}, {p}, {s})", (None if is_try else ERROR), f"{form}/overflow"
    args = f"{arg}, {p}, {s}" if r.random() < 0.8 or p != 38 or s != 0 else arg
    if args == arg:
        rounded = round_half_away(v, 0)
    return f"{fn}({args})", rounded, tag


def f_dateadd_subsecond(r: random.Random):
    part, spell = r.choice([("millisecond", "millisecond"), ("millisecond", "ms"), ("microsecond", "microsecond"), ("microsecond", "us"),
                            ("millisecond", "MILLISECOND"), ("microsecond", "'microsecond'")])
    n = r.choice([0, 1, -1, 1500, 999, 1000, 86400000, r.randint(-5000000, 5000000)])
    is_date = r.random() < 0.6
    base: Any = rand_date(r) if is_date else rand_ts(r)
    if is_date:
        d = q(base.isoformat())
        lit = r.choice([f"{d}::DATE", f"CAST({d} AS DATE)", f"TO_DATE({d})"])
        b2 = datetime.datetime(base.year, base.month, base.day)
    else:
        lit, b2 = f"{q(base.isoformat(sep=' '))}::TIMESTAMP_NTZ", base
    exp = b2 + datetime.timedelta(**{part + "s": n})
    fn = r.choice(["DATEADD", "DATEADD", "TIMESTAMPADD", "TIMEADD"])
    return f"{fn}({spell}, {n}, {lit})", exp, f"{part}/{'date' if is_date else 'timestamp'}"


def f_dateadd(r: random.Random):
    if r.random() < 0.15:
        return f_dateadd_subsecond(r)
    part = r.choice(["year", "quarter", "month", "week", "day", "hour", "minute", "second"])
    n = r.choice([0, 1, -1, 2, 3, 11, 12, -13, 30, 365, r.randint(-500, 500)])
    is_date = r.random() < 0.5
    base: Any = rand_date(r) if is_date else rand_ts(r)
    lit = f"{q(base.isoformat())}::DATE" if is_date else f"{q(base.isoformat(sep=' '))}::TIMESTAMP_NTZ"
    if part in ("hour", "minute", "second"):
        b2 = datetime.datetime(base.year, base.month, base.day) if is_date else base
        exp = b2 + datetime.timedelta(**{part + "s": n})
    elif part == "day":
        exp = base + datetime.timedelta(days=n)
    elif part == "week":
        exp = base + datetime.timedelta(days=7 * n)
    else:
        months = {"month": 1, "quarter": 3, "year": 12}[part] * n
        try:
            exp = add_months(base, months)
        except ValueError:
            return f"DATEADD({part}, 0, {lit})", base, f"{part}/{'date' if is_date else 'timestamp'}/literal-count"
    spell = r.choice([part, part.upper(), f"'{part}'"])
    nsql, ntag = str(n), "literal-count"
    if r.random() < 0.3:
        a = r.randint(-5, 5)
        nsql, ntag = (f"{n - a} + {a}" if a >= 0 else f"{n - a} - {-a}"), "compound-count"
    return f"DATEADD({spell}, {nsql}, {lit})", exp, f"{part}/{'date' if is_date else 'timestamp'}/{ntag}"


def f_datediff(r: random.Random):
    part = r.choice(["year", "quarter", "month", "day", "hour", "minute", "second"])
    a = rand_ts(r)
    b = a + datetime.timedelta(days=r.choice([0, 0, 1, -1, 30, 365, r.randint(-800, 800)]), seconds=r.choice([0, 1, 59, 3600, r.randint(-86400, 86400)]))
    if r.random() < 0.3:
        a, b = a.replace(microsecond=0), b.replace(microsecond=0)
    use_date = part in ("year", "quarter", "month", "day") and r.random() < 0.5
    if use_date:
        la, lb = f"{q(a.date().isoformat())}::DATE", f"{q(b.date().isoformat())}::DATE"
    else:
        la, lb = f"{q(a.isoformat(sep=' '))}::TIMESTAMP_NTZ", f"{q(b.isoformat(sep=' '))}::TIMESTAMP_NTZ"
    if part == "year":
        exp = b.year - a.year
    elif part == "quarter":
        exp = (b.year - a.year) * 4 + ((b.month - 1) // 3 - (a.month - 1) // 3)
    elif part == "month":
        exp = (b.year - a.year) * 12 + (b.month - a.month)
    elif part == "day":
        exp = (b.date() - a.date()).days
    else:
        unit = {"hour": 3600, "minute": 60, "second": 1}[part]
        epoch = datetime.datetime(1970, 1, 1)

        def trunc(t: datetime.datetime) -> int:
            secs = (t.replace(microsecond=0) - epoch)
            return (secs.days * 86400 + secs.seconds) // unit

        exp = trunc(b) - trunc(a)
    era = "pre-1970" if min(a, b).year < 1970 else "post-1970"
    return f"DATEDIFF({part}, {la}, {lb})", exp, f"{part}/{'date' if use_date else 'timestamp'}/{era}"


def f_sha2(r: random.Random):
    s = r.choice(WORDS + ["The quick brown fox", "é✓"])
    x = r.random()
    h = hashlib.sha256(s.encode()).hexdigest()
    if x < 0.12:
        # a BINARY message is hashed as its bytes (or the form is refused), never as some rendering of them as text
        raw = r.choice([bytes.fromhex("E29D84"), b"\xff\x00\x80", "é✓".encode(), b"abc", bytes(range(250, 256))])
        fn = r.choice(["SHA2", "SHA2_HEX"])
        return f"{fn}(X'{raw.hex().upper()}')", ("value-or-raise", hashlib.sha256(raw).hexdigest()), "binary-message"
    if x < 0.25:
        return f"SHA2({q(s)})", h, "sha2"
    if x < 0.45:
        return f"SHA2({q(s)}, 256)", h, "sha2-256"
    if x < 0.6:
        return f"SHA2_HEX({q(s)})", h, "sha2_hex"
    if x < 0.7:
        return f"SHA2_HEX({q(s)}, 256)", h, "sha2_hex-256"
    if x < 0.85:
        return f"SHA2_BINARY({q(s)})", bytes.fromhex(h), "sha2_binary"
    bits = r.choice([512, 224, 384])
    exp = hashlib.new(f"sha{bits}", s.encode()).hexdigest()
    return f"SHA2({q(s)}, {bits})", ("value-or-raise", exp), f"sha2-{bits}"


def f_equal_null(r: random.Random):
    vals = [("1", 1), ("2", 2), ("NULL", None), ("'a'", "a"), ("'b'", "b"), ("NULL::VARCHAR", None)]
    if r.random() < 0.4:
        # equal (or unequal) by value across numeric / temporal types and scales: compared as values, not as their text
        mixed = [("1", "1.0", True), ("1.50", "1.5", True), ("2", "2::DOUBLE", True), ("TO_DECIMAL('3.1', 10, 2)", "TO_NUMBER('3.10', 10, 1)", True),
                 ("'2020-01-01'::DATE", "'2020-01-01 00:00:00'::TIMESTAMP_NTZ", True), ("-0.0::DOUBLE", "0.0::DOUBLE", True),
                 ("10", "10.00::NUMBER(10,2)", True), ("1", "2.0", False), ("1.5", "1.05", False), ("NULL", "1.0", False), ("0.5::DOUBLE", "0.50", True)]
        la, lb, exp = r.choice(mixed)
        if r.random() < 0.5:
            la, lb = lb, la
        return f"EQUAL_NULL({la}, {lb})", exp, "mixed-types"
    (la, a), (lb, b) = r.choice(vals), r.choice(vals)
    if a is not None and b is not None and type(a) is not type(b):
        lb, b = la, a
    if r.random() < 0.35:
        # the call as an operand: its value is a boolean like any other (EQUAL_NULL(a, b) = FALSE is true when they differ)
        wrap, fn = r.choice([("{} = FALSE", lambda v: not v), ("{} = TRUE", lambda v: v), ("{} <> TRUE", lambda v: not v), ("FALSE = {}", lambda v: not v),
                             ("NOT {}", lambda v: not v), ("{} AND TRUE", lambda v: v), ("{} OR FALSE", lambda v: v), ("({} = FALSE) = FALSE", lambda v: v),
                             ("{} IS NOT NULL", lambda v: True), ("IFF({} = FALSE, 'differ', 'same') = 'differ'", lambda v: not v)])
        return wrap.format(f"EQUAL_NULL({la}, {lb})"), fn(a == b), "truth-table-as-operand"
    return f"EQUAL_NULL({la}, {lb})", a == b, "truth-table"


def f_cast(r: random.Random):
    x = r.random()
    if x < 0.1:
        # the one-parameter spelling NUMBER(p): scale 0, precision p, half away from zero for FLOAT inputs
        v = r.choice([2.5, 0.5, -4.5, 3.5, 1.5, -0.5, 2.4, -2.6, 7.0])
        spell = r.choice(["NUMBER(10)", "DECIMAL(5)", "NUMERIC(8)", "NUMBER(10,0)"])
        return f"{v!r}::FLOAT::{spell}", D(int(round_half_away(D(repr(v)), 0))), "float-to-number-p/" + ("midpoint" if abs(v) % 1 == 0.5 else "other")
    if x < 0.3:
        v = D(r.randint(-9999, 9999)).scaleb(-r.randint(0, 3))
        if r.random() < 0.4:
            v = (D(r.randint(0, 99)) + D("0.5")) * r.choice([1, -1])
        form = r.choice(["string", "numeric-literal"])
        arg = q(format(v, "f")) if form == "string" else format(v, "f")
        mid = abs(v) % 1 == D("0.5")
        return f"{arg}::INT", int(round_half_away(v, 0)), f"to-int/{form}/{'midpoint' if mid else 'other'}"
    if x < 0.55:
        v = D(r.randint(-99999, 99999)).scaleb(-r.randint(0, 4))
        if r.random() < 0.4:
            v = (D(r.randint(0, 999)) + D("0.5")).scaleb(-1) * r.choice([1, -1])
        form = r.choice(["string", "numeric-literal"])
        arg = q(format(v, "f")) if form == "string" else format(v, "f")
        mid = abs(v.scaleb(1)) % 1 == D("0.5")
        down = -v.as_tuple().exponent > 1
        return f"{arg}::NUMBER(10,1)", round_half_away(v, 1), f"to-number/{form}/{'midpoint' if mid else 'scale-down' if down else 'exact'}"
    if x < 0.7:
        v = r.choice([1.5, -2.25, 0.1, 1e10, 123456.789])
        return f"{q(repr(v))}::FLOAT", v, "to-float/string"
    if x < 0.85:
        t = rand_ts(r)
        return f"{q(t.isoformat(sep=' '))}::TIMESTAMP_NTZ", t, "to-timestamp_ntz/string"
    d = rand_date(r)
    return f"{q(d.isoformat())}::DATE", d, "to-date/string"


FORMS = {"regexp_replace": f_regexp_replace, "regexp_substr": f_regexp_substr, "split": f_split, "trim": f_trim, "to_date": f_to_date,
         "to_timestamp": f_to_timestamp, "to_decimal": f_to_decimal, "dateadd": f_dateadd, "datediff": f_datediff, "sha2": f_sha2,
         "equal_null": f_equal_null, "cast": f_cast}
SPECIAL = ["random_seed", "sample_seed", "identifier", "values_columns", "array_agg", "alias_in_join", "nulls", "created_database", "nested_rewrites"]


def gen_cases(tier: str, seed: int):
    r = random.Random(f"{seed}:C10")
    n = 6000 if tier == "quick" else 60000
    names = list(FORMS)
    for i in range(n):
        form = names[i % len(names)]
        expr, exp, tag = FORMS[form](random.Random(r.randrange(1 << 60)))
        ctxs = CONTEXTS if i % 5 == 0 else [r.choice(CONTEXTS)]
        yield core.jsonable({"kind": "expr", "form": form, "tag": tag, "expr": expr, "exp": _enc(exp), "ctxs": ["select"] + [c for c in ctxs if c != "select"]})
    for j in range(210 if tier == "quick" else 3000):
        yield {"kind": "special", "which": SPECIAL[j % len(SPECIAL)], "seed": r.randrange(1 << 30)}


def _enc(exp: Any) -> Any:
    if isinstance(exp, tuple) and exp[0] == "json":
        return {"$json": json.dumps(exp[1])}
    if isinstance(exp, tuple) and exp[0] == "value-or-raise":
        return {"$vor": exp[1]}
    return exp


_state: dict[str, Any] = {}


def setup_worker(env: core.Env) -> None:
    fs = core.new_fs()
    conn = fs.connect("db1", "s1")
    cur = conn.cursor()
    cur.execute("CREATE TABLE NUMS (ID INT, GRP VARCHAR, V INT)")
    cur.execute("INSERT INTO NUMS VALUES " + ", ".join(f"({i}, '{'abc'[i % 3]}', {(i * 7) % 10})" for i in range(1, 41)))
    _state.update(fs=fs, conn=conn)


def _same(got: Any, exp: Any) -> str | None:
    if exp is None:
        return None if got is None else "expected-null"
    if got is None:
        return "got-null"
    if isinstance(exp, dict) and "$json" in exp:
        if not isinstance(got, str):
            return f"pytype-{type(got).__name__}-not-json-text"
        try:
            return None if json.loads(got) == json.loads(exp["$json"]) else "value"
        except ValueError:
            return "not-json"
    if isinstance(exp, bool):
        return None if got is exp else "value" if isinstance(got, bool) else f"pytype-{type(got).__name__}-not-bool"
    if isinstance(exp, int):
        if isinstance(got, bool) or not isinstance(got, int):
            return f"pytype-{type(got).__name__}-not-int" if got == exp else "value"
        return None if got == exp else "value"
    if isinstance(exp, decimal.Decimal):
        if not isinstance(got, decimal.Decimal):
            return f"pytype-{type(got).__name__}-not-Decimal" if got == exp else "value"
        return None if got == exp else "value"
    if isinstance(exp, float):
        return None if isinstance(got, float) and got == exp else "value"
    if isinstance(exp, datetime.datetime):
        if not isinstance(got, datetime.datetime):
            return f"pytype-{type(got).__name__}-not-datetime"
        if got.tzinfo is not None:
            return "tz-aware-instead-of-naive" if got.replace(tzinfo=None) == exp else "value"
        return None if got == exp else "value"
    if isinstance(exp, datetime.date):
        if isinstance(got, datetime.datetime):
            return "datetime-instead-of-date" if got == datetime.datetime(exp.year, exp.month, exp.day) else "value"
        return None if got == exp else "value"
    if isinstance(exp, bytes):
        return None if isinstance(got, (bytes, bytearray)) and bytes(got) == exp else "value"
    return None if type(got) is type(exp) and got == exp else "value"


def _eval(cur: Any, expr: str, ctx: str) -> dict:
    if ctx == "select":
        sqls = [f"SELECT {expr} AS X"]
    elif ctx == "nested":
        sqls = [f"SELECT COALESCE(CASE WHEN 1 = 1 THEN {expr} END, {expr}) AS X"]
    elif ctx == "dml":
        sqls = ["CREATE OR REPLACE TABLE T_C10D AS SELECT 1 AS K", f"CREATE OR REPLACE TABLE T_C10E AS SELECT K, {expr} AS X FROM T_C10D WHERE K = 1",
                "SELECT X FROM T_C10E"]
    elif ctx == "cte":
        sqls = [f"WITH c AS (SELECT {expr} AS X) SELECT X FROM c"]
    elif ctx == "view":
        sqls = [f"CREATE OR REPLACE VIEW V_C10 AS SELECT {expr} AS X", "SELECT X FROM V_C10"]
    elif ctx == "ctas":
        sqls = [f"CREATE OR REPLACE TABLE T_C10 AS SELECT {expr} AS X", "SELECT X FROM T_C10"]
    elif ctx == "merge":
        # the expression as the value a MERGE writes, in its UPDATE SET and in its INSERT VALUES (a comparison or boolean
        # combination is written in parentheses there: SET X = a = b reads as an assignment followed by "= b")
        if re.search(r"\)\s*(=|<>|AND\b|OR\b|IS\b)|^(NOT\s|FALSE\s*=)", expr):
            expr = f"({expr})"
        sqls = [f"CREATE OR REPLACE TABLE T_C10R AS SELECT 0 AS K, {expr} AS X", "UPDATE T_C10R SET X = NULL",
                f"MERGE INTO T_C10R t USING (SELECT 0 AS K UNION ALL SELECT 1 AS K) s ON t.K = s.K WHEN MATCHED THEN UPDATE SET X = {expr} "
                f"WHEN NOT MATCHED THEN INSERT (K, X) VALUES (s.K, {expr})", "SELECT X FROM T_C10R ORDER BY K"]
    else:
        sqls = [f"SELECT {expr} AS X FROM NUMS WHERE ID = 1 AND ({expr}) IS NOT DISTINCT FROM ({expr})"]
    out: dict = {}
    for s in sqls:
        out = core.run_stmt(cur, s)
        if not out["ok"]:
            break
    return out


def run_case(case: dict, env: core.Env) -> None:
    case = core.unjson(case)
    if case["kind"] == "special":
        return _special(case, env)
    cur = _state["conn"].cursor()
    form, tag, expr, exp = case["form"], case["tag"], case["expr"], case["exp"]
    env.cover("form_tag", f"{form}/{tag}")
    first = None
    for ctx in case["ctxs"]:
        env.cover("context", ctx)
        out = _eval(cur, expr, ctx)
        if exp == UNSUPPORTED:
            env.count("cmp_unsupported_raises")
            if out["ok"]:
                env.witness(f"C10/{form}/unsupported-form-answered/{tag}", f"{expr} -> {out['rows']}")
            return
        if exp == ERROR:
            env.count("cmp_unsupported_raises")
            if out["ok"]:
                env.witness(f"C10/{form}/error-expected-but-answered/{tag}", f"{expr} -> {out['rows']}")
            return
        if isinstance(exp, dict) and "$vor" in exp:
            env.count("cmp_unsupported_raises")
            if out["ok"] and out["rows"] != [(exp["$vor"],)]:
                env.witness(f"C10/{form}/wrong-answer-instead-of-rejection/{tag}", f"{expr} -> {out['rows']}")
            return
        if not out["ok"]:
            e = out["exc"]
            if ctx == "select":
                env.witness(f"C10/{form}/rejected/{tag}/{e['cls']}", f"{expr}: {e['msg'][:300]}")
                return
            env.witness(f"C10/{form}/rejected-in-context/{ctx}/{tag}/{e['cls']}", f"{expr} in {ctx}: {e['msg'][:300]}")
            continue
        rows = out["rows"]
        got = rows[0][0] if rows else "<<no row>>"
        if ctx == "merge" and (len(rows) != 2 or rows[0] != rows[1]):
            got = ("<<updated and inserted values>>", rows)
        if ctx == "select":
            first = got
            env.count("cmp_value")
            env.count("cmp_pytype")
            bad = _same(got, exp)
            if bad:
                env.witness(f"C10/{form}/{bad}/{tag}", f"{expr} -> {got!r} expected {exp!r}")
                return
        else:
            env.count("cmp_context")
            same = (got == first and type(got) is type(first)) or (isinstance(exp, dict) and isinstance(got, str) and isinstance(first, str) and json.loads(got) == json.loads(first))
            if not same:
                env.witness(f"C10/{form}/context-changes-result/{ctx}/{tag}", f"{expr}: select list {first!r} but in {ctx} {got!r}")
    if exp is not None:
        env.nontrivial((form, expr, case["ctxs"]))


def _special(case: dict, env: core.Env) -> None:
    r = random.Random(case["seed"])
    cur = _state["conn"].cursor()
    w = case["which"]
    env.cover("special", w)
    if w == "random_seed":
        s1, s2 = r.choice([0, 1, r.randint(0, 10**6)]), r.randint(0, 10**6)
        a = core.run_stmt(cur, f"SELECT RANDOM({s1}) AS X")
        b = core.run_stmt(cur, f"SELECT RANDOM({s1}) AS X")
        c = core.run_stmt(cur, f"SELECT RANDOM({s2}) AS X")
        env.count("cmp_seed_repeatable")
        if not (a["ok"] and b["ok"] and c["ok"]):
            env.witness("C10/random/rejected", str(a.get("exc") or b.get("exc") or c.get("exc"))[:300])
            return
        va, vb, vc = a["rows"][0][0], b["rows"][0][0], c["rows"][0][0]
        if va != vb:
            env.witness("C10/random/same-seed-different-value", f"RANDOM({s1}) -> {va} then {vb}")
        if isinstance(va, bool) or not isinstance(va, int) or not -(2**63) <= va < 2**63:
            env.witness("C10/random/not-an-int64", f"{va!r}")
        if s1 != s2 and va == vc:
            env.count("random_collision")
        # unseeded: int64, and two calls differ (with overwhelming probability)
        u1 = core.run_stmt(cur, "SELECT RANDOM() AS X")["rows"][0][0]
        u2 = core.run_stmt(cur, "SELECT RANDOM() AS X")["rows"][0][0]
        if not isinstance(u1, int) or u1 == u2:
            env.witness("C10/random/unseeded", f"{u1!r} {u2!r}")
        # seeded random over rows of a table is repeatable too
        t1 = core.run_stmt(cur, f"SELECT ID, RANDOM({s1}) AS X FROM NUMS ORDER BY ID")
        t2 = core.run_stmt(cur, f"SELECT ID, RANDOM({s1}) AS X FROM NUMS ORDER BY ID")
        if t1["ok"] and t2["ok"] and t1["rows"] != t2["rows"]:
            env.witness("C10/random/same-seed-different-rows", "per-row seeded RANDOM differs between two runs")
        env.nontrivial(("random", s1, s2))
    elif w == "sample_seed":
        p, s = r.choice([10, 30, 50, 80]), r.randint(0, 1000)
        a = core.run_stmt(cur, f"SELECT ID FROM NUMS SAMPLE ({p}) SEED ({s}) ORDER BY ID")
        b = core.run_stmt(cur, f"SELECT ID FROM NUMS SAMPLE ({p}) SEED ({s}) ORDER BY ID")
        env.count("cmp_seed_repeatable")
        if not (a["ok"] and b["ok"]):
            env.witness("C10/sample/rejected", str(a.get("exc") or b.get("exc"))[:300])
            return
        ids = [x[0] for x in a["rows"]]
        if a["rows"] != b["rows"]:
            env.witness("C10/sample/same-seed-different-rows", f"{ids} vs {[x[0] for x in b['rows']]}")
        if len(set(ids)) != len(ids) or not set(ids) <= set(range(1, 41)):
            env.witness("C10/sample/not-a-subset", f"{ids}")
        a0 = core.run_stmt(cur, "SELECT ID FROM NUMS SAMPLE (0) SEED (1)")
        a100 = core.run_stmt(cur, "SELECT ID FROM NUMS SAMPLE (100) SEED (1)")
        if a0["ok"] and a0["rows"] != []:
            env.witness("C10/sample/zero-percent-returns-rows", str(a0["rows"])[:100])
        if a100["ok"] and len(a100["rows"]) != 40:
            env.witness("C10/sample/hundred-percent-drops-rows", str(len(a100["rows"])))
        env.nontrivial(("sample", p, s))
    elif w == "nested_rewrites":
        # a rewritten construct as the argument of another (or the same) rewritten construct, and DATE-valued arguments that
        # are not written as a cast
        h = lambda s_: hashlib.sha256(s_.encode()).hexdigest()  # noqa: E731
        cur.execute("CREATE OR REPLACE TABLE NESTD (DT DATE, S VARCHAR)")
        cur.execute("INSERT INTO NESTD VALUES ('2024-02-28', ' ab12cd ')")
        tests = [
            ("trim-in-trim", "TRIM(TRIM('  a  '))", "a"), ("regexp_replace-in-trim", "TRIM(REGEXP_REPLACE(' a-b ', '-', '+'))", "a+b"),
            ("to_decimal-in-to_decimal", "TO_DECIMAL(TO_DECIMAL('1.55', 10, 2), 10, 1)", D("1.6")), ("sha2_hex-in-sha2_hex", "SHA2_HEX(SHA2_HEX('a'))", h(h("a"))),
            ("sha2-in-sha2", "SHA2(SHA2('a'))", h(h("a"))),
            ("regexp_substr-in-regexp_substr", "REGEXP_SUBSTR(REGEXP_SUBSTR('ab12cd34', '[a-z]+[0-9]+', 1, 2), '[0-9]+')", "34"),
            ("trim-in-split", "SPLIT(TRIM(' a,b '), ',')", {"$json": json.dumps(["a", "b"])}), ("to_timestamp-in-to_date", "TO_DATE(TO_TIMESTAMP('2024-02-28 01:02:03'))", datetime.date(2024, 2, 28)),
            ("trim-in-regexp_substr/column", "REGEXP_SUBSTR(TRIM(S), '[0-9]+') FROM NESTD", "12"), ("trim-in-equal_null/column", "EQUAL_NULL(TRIM(S), 'ab12cd') FROM NESTD", True),
            ("dateadd-day/date-column", "DATEADD(day, 1, DT) FROM NESTD", datetime.date(2024, 2, 29)),
            ("dateadd-day/nested-dateadd", "DATEADD(day, 1, DATEADD(day, 1, '2024-02-28'::DATE))", datetime.date(2024, 3, 1)),
            ("dateadd-month/to_date-of-column", "DATEADD(month, 1, TO_DATE(S)) FROM (SELECT '2024-01-31' AS S)", datetime.date(2024, 2, 29)),
            ("dateadd-hour/date-column", "DATEADD(hour, 1, DT) FROM NESTD", datetime.datetime(2024, 2, 28, 1, 0)),
            ("datediff/dateadd-of-column", "DATEDIFF(day, DT, DATEADD(day, 3, DT)) FROM NESTD", 3),
        ]
        for name, expr_, want in r.sample(tests, 6):
            o = core.run_stmt(cur, f"SELECT {expr_}")
            env.count("cmp_value")
            if not o["ok"]:
                env.witness(f"C10/nested/rejected/{name}", f"SELECT {expr_}: {o['exc']['msg'][:200]}")
                continue
            got = o["rows"][0][0] if o["rows"] else "<<no row>>"
            bad = _same(got, want)
            if bad:
                env.witness(f"C10/nested/{bad}/{name}", f"SELECT {expr_} -> {got!r} expected {want!r}")
        env.nontrivial(("nested_rewrites", r.random()))
    elif w == "created_database":
        # the rewritten constructs work the same in a database made by a CREATE DATABASE statement (not by connect)
        name = f"MADE{r.randrange(10**6)}"
        conn2 = _state["fs"].connect()
        c2 = conn2.cursor()
        env.count("cmp_value")
        for s_ in (f"CREATE DATABASE {name}", f"CREATE SCHEMA {name}.S", f"USE SCHEMA {name}.S", "CREATE TABLE TT (A INT, B INT)", "INSERT INTO TT VALUES (1, 1), (2, NULL), (NULL, NULL)"):
            o = core.run_stmt(c2, s_)
            if not o["ok"]:
                env.witness("C10/created-database/setup-rejected", f"{s_}: {o['exc']['msg'][:200]}")
                return
        for expr_, want in (("SELECT COUNT(*) FROM TT WHERE EQUAL_NULL(A, B)", [(2,)]), ("SELECT EQUAL_NULL(1, NULL), EQUAL_NULL(NULL, NULL)", [(False, True)]),
                            ("SELECT REGEXP_REPLACE('abc', 'b', 'x'), TO_DECIMAL('1.5', 10, 2), DATEADD(day, 1, '2020-01-01'::DATE)", [("axc", D("1.50"), datetime.date(2020, 1, 2))])):
            o = core.run_stmt(c2, expr_)
            if not o["ok"]:
                env.witness(f"C10/created-database/rejected/{expr_.split('(')[0].split()[-1]}", f"{expr_}: {o['exc']['msg'][:200]}")
            elif o["rows"] != want:
                env.witness("C10/created-database/value", f"{expr_}: {o['rows']} expected {want}")
        c2.execute(f"USE DATABASE DB1")
        env.nontrivial(("created_database", name))
    elif w == "identifier":
        name = r.choice(["nums", "NUMS", "Nums", "db1.s1.nums", "s1.nums"])
        o = core.run_stmt(cur, f"SELECT COUNT(*) FROM IDENTIFIER({q(name)})")
        env.count("cmp_value")
        if not o["ok"]:
            env.witness(f"C10/identifier/rejected/{'qualified' if '.' in name else 'plain'}", f"IDENTIFIER({name!r}): {o['exc']['msg'][:200]}")
        elif o["rows"] != [(40,)]:
            env.witness("C10/identifier/value", str(o["rows"]))
        env.nontrivial(("identifier", name))
        # the name inside IDENTIFIER() denotes what the same name written directly denotes, also as the target of DML and
        # when another schema holds a table of the same name
        for s_ in ("CREATE SCHEMA IF NOT EXISTS DB1.S2", "CREATE OR REPLACE TABLE DB1.S2.IDT (K INT)", "CREATE OR REPLACE TABLE DB1.S1.IDT (K INT)",
                   "INSERT INTO DB1.S1.IDT VALUES (1), (2)", "INSERT INTO DB1.S2.IDT VALUES (10), (20), (30)"):
            cur.execute(s_)
        tgt, home = r.choice([("s2.idt", "S2"), ("db1.s2.idt", "S2"), ("DB1.S2.IDT", "S2"), ("idt", "S1"), ("s1.idt", "S1")])
        via = r.choice(["literal", "variable"])
        ref = f"IDENTIFIER({q(tgt)})"
        if via == "variable":
            cur.execute(f"SET idt_name = {q(tgt)}")
            ref = "IDENTIFIER($idt_name)"
        dml = r.choice([f"INSERT INTO {ref} VALUES (99)", f"INSERT INTO {ref} (K) SELECT 98", f"UPDATE {ref} SET K = K + 1000", f"DELETE FROM {ref} WHERE K > 0",
                        f"SELECT COUNT(*) FROM {ref}"])
        o = core.run_stmt(cur, dml)
        env.count("cmp_value")
        kind = dml.split()[0]
        if not o["ok"]:
            env.witness(f"C10/identifier/rejected/{kind}/{'qualified' if '.' in tgt else 'plain'}/{via}", f"{dml}: {o['exc']['msg'][:200]}")
        else:
            s1 = sorted(x[0] for x in cur.execute("SELECT K FROM DB1.S1.IDT").fetchall())
            s2 = sorted(x[0] for x in cur.execute("SELECT K FROM DB1.S2.IDT").fetchall())
            base = {"S1": [1, 2], "S2": [10, 20, 30]}
            want = dict(base)
            if kind == "INSERT":
                want[home] = sorted(base[home] + [99 if "99" in dml else 98])
            elif kind == "UPDATE":
                want[home] = [k + 1000 for k in base[home]]
            elif kind == "DELETE":
                want[home] = []
            if (s1, s2) != (want["S1"], want["S2"]):
                env.witness(f"C10/identifier/{kind}-hits-another-table/{'qualified' if '.' in tgt else 'plain'}",
                            f"{dml} ({tgt}): S1.IDT={s1} S2.IDT={s2} expected {want}")
            elif kind == "SELECT" and o["rows"] != [(len(base[home]),)]:
                env.witness(f"C10/identifier/SELECT-reads-another-table/{'qualified' if '.' in tgt else 'plain'}", f"{dml}: {o['rows']}")
            elif kind in ("INSERT", "UPDATE", "DELETE") and o["rowcount"] != {"INSERT": 1, "UPDATE": len(base[home]), "DELETE": len(base[home])}[kind]:
                env.witness(f"C10/identifier/{kind}-count", f"{dml}: rowcount {o['rowcount']}")
    elif w == "values_columns":
        m, n = r.randint(1, 4), r.randint(1, 3)
        vals = ", ".join("(" + ", ".join(str(i * 10 + j) for j in range(m)) + ")" for i in range(n))
        cols = ", ".join(f"column{j + 1}" for j in range(m))
        o = core.run_stmt(cur, f"SELECT {cols} FROM VALUES {vals} ORDER BY 1")
        d = core.read_description(cur)
        env.count("cmp_value")
        want = [tuple(i * 10 + j for j in range(m)) for i in range(n)]
        if not o["ok"]:
            env.witness("C10/values-columns/rejected", o["exc"]["msg"][:200])
        elif o["rows"] != want:
            env.witness("C10/values-columns/value", f"{o['rows']} expected {want}")
        elif d["ok"] and d["names"] != [f"COLUMN{j + 1}" for j in range(m)]:
            env.witness("C10/values-columns/names", str(d["names"]))
        env.nontrivial(("values", m, n))
    elif w == "array_agg":
        g = r.choice(["a", "b", "c"])
        rows = [(i, (i * 7) % 10) for i in range(1, 41) if "abc"[i % 3] == g]
        x = r.random()
        env.count("cmp_value")
        if x < 0.35:
            o = core.run_stmt(cur, f"SELECT ARRAY_AGG(V) WITHIN GROUP (ORDER BY ID) FROM NUMS WHERE GRP = '{g}'")
            want, ordered, tag = [v for _, v in rows], True, "within-group"
        elif x < 0.6:
            o = core.run_stmt(cur, f"SELECT ARRAY_AGG(V) WITHIN GROUP (ORDER BY ID DESC) FROM NUMS WHERE GRP = '{g}'")
            want, ordered, tag = [v for _, v in reversed(rows)], True, "within-group-desc"
        elif x < 0.8:
            o = core.run_stmt(cur, f"SELECT ARRAY_AGG(DISTINCT V) FROM NUMS WHERE GRP = '{g}'")
            want, ordered, tag = sorted({v for _, v in rows}), False, "distinct"
        else:
            o = core.run_stmt(cur, f"SELECT ARRAY_AGG(V) FROM NUMS WHERE GRP = '{g}'")
            want, ordered, tag = [v for _, v in rows], False, "plain"
        if not o["ok"]:
            env.witness(f"C10/array_agg/rejected/{tag}", o["exc"]["msg"][:200])
        else:
            got = o["rows"][0][0]
            if not isinstance(got, str):
                env.witness(f"C10/array_agg/pytype-{type(got).__name__}-not-json-text/{tag}", repr(got)[:100])
            else:
                arr = json.loads(got)
                if (arr != want) if ordered else (sorted(arr) != sorted(want)):
                    env.witness(f"C10/array_agg/value/{tag}", f"{arr} expected {want}")
        env.nontrivial(("array_agg", g, tag))
    elif w == "alias_in_join":
        k = r.randint(1, 40)
        o = core.run_stmt(cur, f"SELECT n1.ID AS K, n2.V FROM NUMS n1 JOIN NUMS n2 ON K = n2.ID WHERE n1.ID = {k}")
        env.count("cmp_value")
        if not o["ok"]:
            env.witness("C10/alias-in-join/rejected", o["exc"]["msg"][:200])
        elif o["rows"] != [(k, (k * 7) % 10)]:
            env.witness("C10/alias-in-join/value", f"{o['rows']}")
        # an alias defined inside a CTE / derived table is not an alias of the outer select: ID there is a plain column
        v = (k * 7) % 10
        want2 = [(100 + v, v)] if 1 <= v <= 40 else []
        for shape, sql in (("cte", f"WITH c AS (SELECT V + 100 AS KX FROM NUMS WHERE ID = {k}) SELECT c.KX, n2.ID FROM c JOIN NUMS n2 ON KX = n2.ID + 100"),
                           ("derived", f"SELECT d.KX, n2.ID FROM (SELECT V + 100 AS KX FROM NUMS WHERE ID = {k}) d JOIN NUMS n2 ON KX = n2.ID + 100")):
            o2 = core.run_stmt(cur, sql)
            env.count("cmp_value")
            if not o2["ok"]:
                env.witness(f"C10/alias-in-join/rejected/{shape}", f"{sql}: {o2['exc']['msg'][:200]}")
            elif o2["rows"] != want2:
                env.witness(f"C10/alias-in-join/inner-alias-taken-for-outer/{shape}", f"{sql} -> {o2['rows']} expected {want2}")
        env.nontrivial(("alias", k))
    elif w == "nulls":
        for e in ("REGEXP_REPLACE(NULL, 'a', 'b')", "REGEXP_SUBSTR(NULL, 'a')", "SPLIT(NULL, ',')", "TRIM(NULL)", "TO_DATE(NULL)", "TO_TIMESTAMP(NULL::VARCHAR)",
                  "TO_DECIMAL(NULL, 10, 2)", "DATEADD(day, 1, NULL::DATE)", "DATEADD(day, NULL, '2020-01-01'::DATE)", "DATEDIFF(day, NULL::DATE, '2020-01-01'::DATE)",
                  "SHA2(NULL)", "NULL::INT", "NULL::NUMBER(10,2)"):
            o = core.run_stmt(cur, f"SELECT {e} AS X")
            env.count("cmp_value")
            fn = e.split("(")[0].split(":")[0]
            if not o["ok"]:
                env.witness(f"C10/null-argument/rejected/{fn}", f"{e}: {o['exc']['msg'][:200]}")
            elif o["rows"] != [(None,)]:
                env.witness(f"C10/null-argument/not-null/{fn}", f"{e} -> {o['rows']}")
        env.nontrivial(("nulls", case["seed"]))
