"""C07 Failures are Snowflake errors with the right codes, and change nothing.

Monitor: deliberately failing statements (cause x statement kind x position x qualification)
in generated session states; exception class/errno/sqlstate, cursor.sqlstate life cycle,
before/after raw snapshot (committed view and the session's own view), session state, and a
never-failed twin instance for the follow-up statements."""

from __future__ import annotations

import random
from typing import Any

from fsverif import core

ID = "C07"
LEVEL = "exploration"
BUDGET = {"quick": 75, "thorough": 600}
RULE = (
    "case = (session state: inside/outside a transaction with uncommitted rows, session variables set or not, context "
    "full/database-only/none; one failing statement from the cause x kind x position catalogue; 1-5 follow-up statements). "
    "Non-trivial = the statement failed and every 'changed nothing' comparison and at least one follow-up comparison was "
    "evaluated; distinct = distinct (state, failing statement, follow-ups). Closed-connection cases enumerate every entry point."
)
REQUIRED = ["cmp_exception", "cmp_sqlstate_lifecycle", "cmp_unchanged", "cmp_txn_still_open", "cmp_followup_twin", "cmp_closed", "failing_describe"]
ASSUMPTIONS = [
    "allowed (errno, sqlstate) pairs are those the property lists; a specific pair is required only where the cause fixes it "
    "(unknown table/view -> 2003/42S02, no current database -> 90105, no current schema -> 90106)",
    "failing statements use fully qualified names unless the cause under test is the missing context",
]

ALLOWED = {(2003, "42S02"), (2043, "02000"), (90105, "22000"), (90106, "22000")}
T, M = "DB1.S1.ORDERS", "DB1.S1.MISSING_T"

# (name, sql, required pair or None, cause)
FAILS = [
    ("select_from", f"SELECT * FROM {M}", (2003, "42S02"), "unknown-table"),
    ("select_join", f"SELECT * FROM {T} o JOIN {M} m ON o.ID = m.ID", (2003, "42S02"), "unknown-table"),
    ("select_subquery", f"SELECT * FROM {T} WHERE ID IN (SELECT ID FROM {M})", (2003, "42S02"), "unknown-table"),
    ("select_cte", f"WITH c AS (SELECT * FROM {M}) SELECT * FROM c", (2003, "42S02"), "unknown-table"),
    ("insert_target", f"INSERT INTO {M} VALUES (1)", (2003, "42S02"), "unknown-table"),
    ("insert_select_source", f"INSERT INTO {T} SELECT * FROM {M}", (2003, "42S02"), "unknown-table"),
    ("update_target", f"UPDATE {M} SET ID = 1", (2003, "42S02"), "unknown-table"),
    ("delete_target", f"DELETE FROM {M}", (2003, "42S02"), "unknown-table"),
    ("truncate_target", f"TRUNCATE TABLE {M}", (2003, "42S02"), "unknown-table"),
    ("drop_table", f"DROP TABLE {M}", (2003, "42S02"), "unknown-table"),
    ("alter_add_column", f"ALTER TABLE {M} ADD COLUMN X VARCHAR(10)", (2003, "42S02"), "unknown-table"),
    ("alter_rename", f"ALTER TABLE {M} RENAME TO DB1.S1.M2", (2003, "42S02"), "unknown-table"),
    ("describe_table", f"DESCRIBE TABLE {M}", (2003, "42S02"), "unknown-table"),
    ("view_body", f"CREATE VIEW DB1.S1.V_BAD AS SELECT * FROM {M}", (2003, "42S02"), "unknown-table"),
    ("ctas_source", f"CREATE TABLE DB1.S1.CT_BAD AS SELECT * FROM {M}", (2003, "42S02"), "unknown-table"),
    ("clone_source", f"CREATE TABLE DB1.S1.CL_BAD CLONE {M}", (2003, "42S02"), "unknown-table"),
    ("replace_clone_source", f"CREATE OR REPLACE TABLE {T} CLONE {M}", None, "unknown-table"),
    ("replace_ctas_source", f"CREATE OR REPLACE TABLE {T} AS SELECT * FROM {M}", (2003, "42S02"), "unknown-table"),
    ("replace_view_body", f"CREATE OR REPLACE VIEW DB1.S1.ORDERS_V AS SELECT * FROM {M}", (2003, "42S02"), "unknown-table"),
    ("merge_source", f"MERGE INTO {T} t USING {M} s ON t.ID = s.ID WHEN MATCHED THEN DELETE", (2003, "42S02"), "unknown-table"),
    ("merge_target", f"MERGE INTO {M} t USING {T} s ON t.ID = s.ID WHEN MATCHED THEN DELETE", (2003, "42S02"), "unknown-table"),
    ("comment_on_table", f"COMMENT ON TABLE {M} IS 'never'", (2003, "42S02"), "unknown-table"),
    ("alter_set_comment", f"ALTER TABLE {M} SET COMMENT = 'never'", (2003, "42S02"), "unknown-table"),
    ("drop_view", "DROP VIEW DB1.S1.MISSING_V", (2003, "42S02"), "unknown-view"),
    ("describe_view", "DESCRIBE VIEW DB1.S1.MISSING_V", (2003, "42S02"), "unknown-view"),
    ("select_unknown_schema", "SELECT * FROM DB1.NO_SCHEMA.ORDERS", None, "unknown-schema"),
    ("create_in_unknown_schema", "CREATE TABLE DB1.NO_SCHEMA.X (ID INT)", None, "unknown-schema"),
    ("use_unknown_schema", "USE SCHEMA DB1.NO_SCHEMA", None, "unknown-schema"),
    ("drop_unknown_schema", "DROP SCHEMA DB1.NO_SCHEMA", None, "unknown-schema"),
    ("select_unknown_database", "SELECT * FROM NO_DB.S1.ORDERS", None, "unknown-database"),
    ("use_unknown_database", "USE DATABASE NO_DB", None, "unknown-database"),
    ("create_schema_unknown_database", "CREATE SCHEMA NO_DB.S", None, "unknown-database"),
    ("select_unknown_column", f"SELECT NOCOL FROM {T}", None, "unknown-column"),
    ("where_unknown_column", f"SELECT ID FROM {T} WHERE NOCOL = 1", None, "unknown-column"),
    ("update_unknown_column", f"UPDATE {T} SET NOCOL = 1", None, "unknown-column"),
    ("insert_unknown_column", f"INSERT INTO {T} (NOCOL) VALUES (1)", None, "unknown-column"),
    ("delete_unknown_column", f"DELETE FROM {T} WHERE NOCOL = 1", None, "unknown-column"),
    ("order_by_unknown_column", f"SELECT ID FROM {T} ORDER BY NOCOL", None, "unknown-column"),
    ("unknown_function", "SELECT NO_SUCH_FUNCTION_X(1)", None, "unknown-function"),
    ("unknown_function_in_dml", f"UPDATE {T} SET ID = NO_SUCH_FUNCTION_X(ID)", None, "unknown-function"),
    ("create_existing_table", f"CREATE TABLE {T} (ID INT)", None, "already-exists"),
    ("create_existing_schema", "CREATE SCHEMA DB1.S1", None, "already-exists"),
    ("create_existing_view", "CREATE VIEW DB1.S1.ORDERS_V AS SELECT 1 AS X", None, "already-exists"),
    ("create_existing_database", "CREATE DATABASE DB1", None, "already-exists"),
    ("rename_to_existing", f"ALTER TABLE {T} RENAME TO PEOPLE", None, "already-exists"),
    ("too_many_values", f"INSERT INTO {T} VALUES (1, 2, 3, 4, 5, 6, 7)", None, "wrong-number-of-values"),
    ("too_few_values_collist", f"INSERT INTO {T} (ID, NOTE) VALUES (1)", None, "wrong-number-of-values"),
    ("insert_select_arity", f"INSERT INTO {T} SELECT 1, 2, 3", None, "wrong-number-of-values"),
    ("unqualified_select", "SELECT * FROM ORDERS", "ctx", "no-context"),
    ("unqualified_insert", "INSERT INTO ORDERS (ID) VALUES (1)", "ctx", "no-context"),
    ("unqualified_create", "CREATE TABLE NEW_T (ID INT)", "ctx", "no-context"),
    ("schema_qualified_select", "SELECT * FROM S1.ORDERS", "ctx1", "no-context"),
    ("unqualified_create_schema", "CREATE SCHEMA NEW_S", "ctx1", "no-context"),
    ("undefined_variable", "SELECT $NO_SUCH_VARIABLE", "var", "undefined-variable"),
    ("undefined_variable_in_dml", f"INSERT INTO {T} (ID) VALUES ($NO_SUCH_VARIABLE)", "var", "undefined-variable"),
    ("undefined_variable_between_bound_strings", "SELECT %s AS A, $NO_SUCH_VARIABLE AS V, %s AS B", "var", "undefined-variable"),
    ("undefined_variable_after_comment", "SELECT /* it's */ $NO_SUCH_VARIABLE -- isn't it\n", "var", "undefined-variable"),
    ("undefined_variable_in_update_bound", f"UPDATE {T} SET NOTE = %s WHERE NOTE = $NO_SUCH_VARIABLE OR NOTE = %s", "var", "undefined-variable"),
]
# bound parameters of the failing statements that have placeholders (strings with quotes in them)
PARAMS = {"undefined_variable_between_bound_strings": ("a'b", "c'd"), "undefined_variable_in_update_bound": ("it's", "x\\'y")}
FOLLOW = [
    "INSERT INTO DB1.S1.ORDERS (ID) VALUES ({n})",
    "SELECT COUNT(*) FROM DB1.S1.ORDERS",
    "SELECT ID FROM DB1.S1.ORDERS ORDER BY ID",
    "CREATE TABLE DB1.S1.F{n} (ID INT)",
    "SELECT CURRENT_DATABASE(), CURRENT_SCHEMA()",
    "UPDATE DB1.S1.ORDERS SET NOTE = 'f{n}' WHERE ID = 1",
    "SELECT $KEEPVAR",
    "COMMIT",
    "ROLLBACK",
    "SHOW TABLES IN SCHEMA DB1.S1",
    "SELECT table_name FROM DB1.information_schema.tables WHERE table_schema = 'S1' ORDER BY 1",
]
ENTRY_POINTS = ["execute", "cursor_execute", "commit", "rollback", "execute_string", "write_pandas", "executemany", "old_cursor", "description", "describe"]


def gen_cases(tier: str, seed: int):
    r = random.Random(f"{seed}:C07")
    for ep in ENTRY_POINTS:
        for ctx in ("full", "none"):
            yield {"part": "closed", "entry": ep, "ctx": ctx}
    # every kind of statement on a closed connection: the same DatabaseError, whatever fakesnow does before it reaches the engine
    from fsverif import zoo

    seen = set()
    for z in zoo.ZOO:
        for s in z["stmts"]:
            sql = zoo.render(s)
            head = " ".join(sql.split()[:3]).upper()
            if head not in seen:
                seen.add(head)
                yield {"part": "closed", "entry": "statement", "ctx": "full", "sql": sql}
    for sql in ("CREATE TABLE IF NOT EXISTS T9 (A INT)", "CREATE TABLE IF NOT EXISTS DB1.S1.ORDERS (A VARCHAR(3)) COMMENT = 'c'",
                "SET v = 1", "SELECT $v", "UNSET v", "COMMENT ON TABLE ORDERS IS 'x'", "TRUNCATE TABLE ORDERS", "BEGIN", "COMMIT", "ROLLBACK",
                "USE DATABASE DB1", "USE SCHEMA S1", "DROP SCHEMA S1", "CREATE DATABASE D9", "SHOW TABLES", "DESCRIBE TABLE ORDERS"):
        yield {"part": "closed", "entry": "statement", "ctx": "full", "sql": sql}
    for what in ("table", "view", "column"):
        yield {"part": "stale_description", "what": what}
    for what in ("missing_table", "unknown_column", "missing_schema"):
        for txn in (False, True):
            yield {"part": "write_pandas_fails", "what": what, "txn": txn}
    for style in ("qmark", "pyformat"):
        for what in ("missing_table", "unknown_column", "no_context", "undefined_variable", "closed"):
            yield {"part": "executemany_fails", "style": style, "what": what}
    yield {"part": "same_text_after_unset"}
    for i in range(len(FAILS)):
        if FAILS[i][2] not in ("ctx", "ctx1"):
            yield {"part": "nop_after_failure", "fail": i}
    # the failing queries handed to cursor.describe() instead of execute(): same error, same cursor.sqlstate life cycle
    for i in range(len(FAILS)):
        if FAILS[i][1].lstrip().upper().startswith(("SELECT", "WITH")):
            for ctx in ("full", "none"):
                yield {"part": "fail", "fail": i, "ctx": ctx, "txn": False, "vars": ctx == "full", "via": "describe",
                       "follow": [[r.randrange(len(FOLLOW)), 900 + i * 10 + k] for k in range(2)]}
    n = 1500 if tier == "quick" else 18000
    # every failing statement at least once in each context / transaction state, then random
    combos = [(i, ctx, txn) for i in range(len(FAILS)) for ctx in ("full", "db", "none") for txn in (False, True)]
    r.shuffle(combos)
    for j in range(n):
        if j < len(combos):
            i, ctx, txn = combos[j]
        else:
            i, ctx, txn = r.randrange(len(FAILS)), r.choice(["full", "full", "db", "none"]), r.random() < 0.4
        yield {"part": "fail", "fail": i, "ctx": ctx, "txn": txn, "vars": r.random() < 0.5, "via": "describe" if r.random() < 0.15 else "execute",
               "follow": [[r.randrange(len(FOLLOW)), 1000 + j * 10 + k] for k in range(r.randint(1, 5))]}


def _prepare(ctx: str) -> tuple[Any, Any]:
    fs = core.new_fs()
    c0 = fs.connect("db1", "s1")
    cur = c0.cursor()
    cur.execute("CREATE TABLE ORDERS (ID INT, NOTE VARCHAR(20)) COMMENT = 'orders'")
    cur.execute("INSERT INTO ORDERS VALUES (1, 'a'), (2, 'b')")
    cur.execute("CREATE TABLE PEOPLE (ID INT)")
    cur.execute("CREATE VIEW ORDERS_V AS SELECT ID FROM ORDERS")
    if ctx == "full":
        conn = fs.connect("db1", "s1")
    elif ctx == "db":
        conn = fs.connect("db1")
    else:
        conn = fs.connect()
    return fs, conn


def _own_view(conn: Any) -> list:
    try:
        return sorted(core.raw_of(conn).execute("select ID, NOTE from DB1.S1.ORDERS").fetchall(), key=repr)
    except core.duckdb.Error as e:
        return [("<<session cannot read any more>>", type(e).__name__, str(e)[-120:])]


def setup_worker(env: core.Env) -> None:
    pass


def run_case(case: dict, env: core.Env) -> None:
    if case["part"] == "closed":
        return _closed(case, env)
    if case["part"] == "stale_description":
        return _stale_description(case, env)
    if case["part"] == "write_pandas_fails":
        return _write_pandas_fails(case, env)
    if case["part"] == "executemany_fails":
        return _executemany_fails(case, env)
    if case["part"] == "same_text_after_unset":
        return _same_text_after_unset(case, env)
    if case["part"] == "nop_after_failure":
        return _nop_after_failure(case, env)
    name, sql, req, cause = FAILS[case["fail"]]
    ctx = case["ctx"]
    # what must happen given the context
    if req == "ctx":  # unqualified name
        if ctx == "full":
            return  # would succeed (or fail for another reason): not this cause
        want = (90105, "22000") if ctx == "none" else (90106, "22000")
    elif req == "ctx1":  # schema-qualified name / CREATE SCHEMA: needs a database only
        if ctx != "none":
            return
        want = (90105, "22000")
    elif req == "var":
        want = "var"
    else:
        want = req
    env.cover("cause_x_ctx", f"{cause}/{ctx}/{'txn' if case['txn'] else 'autocommit'}")
    env.cover("failing_statement", name)

    fs, conn = _prepare(ctx)
    tfs, tconn = _prepare(ctx)  # twin that never sees the failure
    try:
        for c in (conn, tconn):
            cur = c.cursor()
            if case["vars"]:
                cur.execute("SET KEEPVAR = 'kept'")
            if case["txn"]:
                cur.execute("BEGIN")
                cur.execute("INSERT INTO DB1.S1.ORDERS VALUES (50, 'uncommitted')")
        cur = conn.cursor()
        before = (core.snapshot(fs), core.session_state(conn), _own_view(conn), core.engine_context(conn))
        if case.get("via") == "describe" and sql.lstrip().upper().startswith(("SELECT", "WITH")):
            env.count("failing_describe")
            out = {"sql": f"describe({sql!r})", "params": PARAMS.get(name)}
            try:
                cur.describe(sql, PARAMS.get(name)) if PARAMS.get(name) is not None else cur.describe(sql)
                out["ok"] = True
            except Exception as e:  # noqa: BLE001
                out["ok"], out["exc"] = False, core.exc_info(e)
        else:
            out = core.run_stmt(cur, sql, PARAMS.get(name))
        env.count("cmp_exception")
        if out["ok"]:
            env.witness(f"C07/statement-succeeded/{name}", f"{sql} (ctx={ctx}) succeeded: {out.get('rows')}")
        else:
            e = out["exc"]
            if e["kind"] != "snowflake" or e["cls"] != "ProgrammingError":
                env.witness(f"C07/not-a-snowflake-error/{cause}/{name}/{e['cls']}", f"{sql}: {e}"[:600])
            elif want == "var":
                if "session variable '$no_such_variable' does not exist" not in (e.get("rawmsg") or e["msg"]).lower():
                    env.witness(f"C07/wrong-message/{name}", f"{sql}: {e['msg']}")
            else:
                pair = (e.get("errno"), e.get("sqlstate"))
                if pair not in ALLOWED:
                    env.witness(f"C07/errno-sqlstate-not-allowed/{cause}/{name}", f"{sql}: {pair}: {e['msg'][:200]}")
                elif want is not None and pair != want:
                    env.witness(f"C07/wrong-errno-sqlstate/{cause}/{name}/got-{pair[0]}", f"{sql}: {pair} expected {want}: {e['msg'][:200]}")
            # cursor.sqlstate life cycle
            env.count("cmp_sqlstate_lifecycle")
            if want != "var" and e["kind"] == "snowflake" and cur.sqlstate != e.get("sqlstate"):
                env.witness(f"C07/cursor-sqlstate-differs/{cause}", f"{sql}: cursor.sqlstate={cur.sqlstate!r} exception {e.get('sqlstate')!r}")
        # ---- changed nothing
        env.count("cmp_unchanged")
        ov = _own_view(conn)
        if ov and ov[0][0] == "<<session cannot read any more>>":
            env.witness(f"C07/transaction-aborted-by-failed-statement/{cause}/{name}", f"{sql}: {ov}")
            return
        after = (core.snapshot(fs), core.session_state(conn), ov, core.engine_context(conn))
        if after != before:
            what = []
            if after[0] != before[0]:
                what.append("committed-state: " + "; ".join(core.snap_diff(before[0], after[0])))
            if after[1] != before[1]:
                what.append(f"session: {before[1]} -> {after[1]}")
            if after[2] != before[2]:
                what.append(f"own-view: {before[2]} -> {after[2]}")
            if after[3] != before[3]:
                what.append(f"engine-context: {before[3]} -> {after[3]}")
            field = what[0].split(":")[0]
            env.witness(f"C07/failed-statement-changed-state/{name}/{field}", f"{sql}: {what}"[:1200])
        if case["txn"]:
            env.count("cmp_txn_still_open")
            committed = sorted(core.raw_root(fs).cursor().execute("select ID from DB1.S1.ORDERS").fetchall())
            own = [r[0] for r in _own_view(conn)]
            if 50 not in own or (50,) in committed:
                env.witness(f"C07/transaction-disturbed/{cause}/{name}", f"{sql}: uncommitted row visible to session={50 in own} committed={(50,) in committed}")
        # ---- sqlstate reset by the next execute, and follow-ups behave as on the twin
        compared = 0
        for fi, n in case["follow"]:
            f = FOLLOW[fi].format(n=n)
            if "$KEEPVAR" in f and not case["vars"]:
                continue
            if ctx != "full" and f.startswith("SHOW"):
                pass
            o1 = core.run_stmt(cur, f)
            o2 = core.run_stmt(tconn.cursor(), f)
            if o1["ok"] and cur.sqlstate is not None:
                env.witness("C07/sqlstate-not-reset", f"after {sql!r} then {f!r}: cursor.sqlstate={cur.sqlstate!r}")
            env.count("cmp_followup_twin")
            k1 = (o1["ok"], o1.get("rows"), o1.get("rowcount"), (o1.get("exc") or {}).get("cls"), (o1.get("exc") or {}).get("errno"))
            k2 = (o2["ok"], o2.get("rows"), o2.get("rowcount"), (o2.get("exc") or {}).get("cls"), (o2.get("exc") or {}).get("errno"))
            if k1 != k2:
                env.witness(f"C07/followup-differs-from-twin/{name}/{f.split()[0]}", f"after failing {sql!r}: {f!r} -> {k1} but twin {k2}"[:900])
                break
            compared += 1
        if not out["ok"] and compared:
            env.nontrivial((name, ctx, case["txn"], case["vars"], case["follow"]))
    finally:
        fs.duck_conn.close()
        tfs.duck_conn.close()


def _nop_after_failure(case: dict, env: core.Env) -> None:
    """With nop_regexes configured: a no-op'd statement after a failure is an execute like any other."""
    fs = core.new_fs(nop_regexes=[r"^CALL\b", r"^GRANT\b"])
    try:
        c0 = fs.connect("db1", "s1")
        cur = c0.cursor()
        cur.execute("CREATE TABLE ORDERS (ID INT, NOTE VARCHAR(20)) COMMENT = 'orders'")
        cur.execute("CREATE TABLE PEOPLE (ID INT)")
        cur.execute("CREATE VIEW ORDERS_V AS SELECT ID FROM ORDERS")
        name, sql, req, cause = FAILS[case["fail"]]
        out = core.run_stmt(cur, sql, PARAMS.get(name))
        if out["ok"]:
            return
        env.count("cmp_sqlstate_lifecycle")
        o2 = core.run_stmt(cur, "CALL something(1)")
        if not o2["ok"] or o2["rows"] != [("Statement executed successfully.",)]:
            env.witness("C07/nop-after-failure/nop-statement-failed", f"{o2.get('exc') or o2.get('rows')}")
        elif cur.sqlstate is not None:
            env.witness("C07/sqlstate-not-reset/by-nop-statement", f"after failing {sql!r} then CALL: cursor.sqlstate={cur.sqlstate!r}")
        o3 = core.run_stmt(cur, "CALL p($NO_SUCH_VARIABLE)")
        if o3["ok"]:
            env.witness("C07/undefined-variable-in-nop-statement-accepted", str(o3["rows"]))
        env.nontrivial(("nop_after_failure", name))
    finally:
        fs.duck_conn.close()


def _stale_description(case: dict, env: core.Env) -> None:
    """description of a result whose object has gone since: a failure must still be a Snowflake error."""
    fs, conn = _prepare("full")
    try:
        cur = conn.cursor()
        what = case["what"]
        if what == "view":
            cur.execute("SELECT * FROM ORDERS_V")
            conn.cursor().execute("DROP VIEW ORDERS_V")
        elif what == "table":
            cur.execute("SELECT * FROM PEOPLE")
            conn.cursor().execute("DROP TABLE PEOPLE")
        else:
            cur.execute("SELECT NOTE FROM ORDERS")
            conn.cursor().execute("ALTER TABLE ORDERS DROP COLUMN NOTE")
        env.count("cmp_exception")
        try:
            _ = cur.description
        except core.sferr.ProgrammingError as e:
            if (e.errno, e.sqlstate) not in ALLOWED:
                env.witness(f"C07/stale-description/errno-sqlstate-not-allowed/{what}", f"{e.errno}/{e.sqlstate}")
        except Exception as e:  # noqa: BLE001
            env.witness(f"C07/stale-description/not-a-snowflake-error/{what}/{type(e).__name__}", str(e)[:300])
        env.nontrivial(("stale_description", what))
    finally:
        fs.duck_conn.close()


def _executemany_fails(case: dict, env: core.Env) -> None:
    """executemany is execute, row after row: same errors, same cursor.sqlstate life cycle, same closed-connection answer."""
    fs = core.new_fs()
    try:
        style, what = case["style"], case["what"]
        c0 = fs.connect("db1", "s1")
        c0.cursor().execute("CREATE TABLE ORDERS (ID INT, NOTE VARCHAR(20))")
        conn = fs.connect("db1", None if what == "no_context" else "s1", paramstyle="qmark" if style == "qmark" else "pyformat")
        ph = "?" if style == "qmark" else "%s"
        cur = conn.cursor()
        sql, want = {
            "missing_table": (f"INSERT INTO DB1.S1.NO_SUCH_T (ID) VALUES ({ph})", (2003, "42S02")),
            "unknown_column": (f"INSERT INTO DB1.S1.ORDERS (NOCOL) VALUES ({ph})", None),
            "no_context": (f"INSERT INTO ORDERS (ID) VALUES ({ph})", (90106, "22000")),
            "undefined_variable": (f"INSERT INTO DB1.S1.ORDERS (ID, NOTE) VALUES ({ph}, $NO_SUCH_VARIABLE)", None),
            "closed": (f"INSERT INTO DB1.S1.ORDERS (ID) VALUES ({ph})", (250002, "08003")),
        }[what]
        if what == "closed":
            conn.close()
        env.count("cmp_exception")
        try:
            cur.executemany(sql, [(1,), (2,)])
            env.witness(f"C07/statement-succeeded/executemany-{what}/{style}", sql)
            return
        except core.sferr.DatabaseError as e:
            is_prog = isinstance(e, core.sferr.ProgrammingError)
            if what == "closed":
                if is_prog or (e.errno, e.sqlstate) != want:
                    env.witness(f"C07/closed-connection/wrong-codes/executemany/{style}", f"{type(e).__name__} {e.errno}/{e.sqlstate}")
                return
            if not is_prog:
                env.witness(f"C07/not-a-snowflake-error/executemany-{what}/{style}/{type(e).__name__}", str(e)[:200])
                return
            if want and (e.errno, e.sqlstate) != want:
                env.witness(f"C07/wrong-codes/executemany-{what}/{style}", f"{e.errno}/{e.sqlstate} expected {want}")
            env.count("cmp_sqlstate_lifecycle")
            if cur.sqlstate != e.sqlstate:
                env.witness(f"C07/sqlstate-not-set/executemany/{style}", f"{sql}: exception sqlstate {e.sqlstate} but cursor.sqlstate {cur.sqlstate!r}")
        except Exception as e:  # noqa: BLE001
            env.witness(f"C07/not-a-snowflake-error/executemany-{what}/{style}/{type(e).__name__}", str(e)[:200])
            return
        # a later successful executemany resets it
        ok_sql = f"INSERT INTO DB1.S1.ORDERS (ID) VALUES ({ph})"
        try:
            cur.executemany(ok_sql, [(5,), (6,)])
            if cur.sqlstate is not None:
                env.witness(f"C07/sqlstate-not-reset/by-executemany/{style}", f"cursor.sqlstate {cur.sqlstate!r} after a successful executemany")
            n = c0.cursor().execute("SELECT COUNT(*) FROM ORDERS").fetchall()
            if n != [(2,)]:
                env.witness(f"C07/failed-statement-changed-state/executemany-{what}/{style}", f"ORDERS holds {n} rows, expected the 2 of the successful call")
        except Exception as e:  # noqa: BLE001
            env.witness(f"C07/connection-unusable-after/executemany-{what}/{style}", f"{type(e).__name__}: {e}"[:200])
        env.nontrivial(("executemany_fails", style, what))
    finally:
        fs.duck_conn.close()


def _same_text_after_unset(case: dict, env: core.Env) -> None:
    fs = core.new_fs()
    try:
        conn = fs.connect("db1", "s1")
        cur = conn.cursor()
        cur.execute("CREATE TABLE ORDERS (ID INT, NOTE VARCHAR(20))")
        cur.execute("SET KEEP = 7")
        for text in ("SELECT $KEEP", "INSERT INTO ORDERS (ID) VALUES ($KEEP)", "SELECT ID FROM ORDERS WHERE ID = $KEEP"):
            cur.execute(text)
        cur.execute("UNSET KEEP")
        for text in ("SELECT $KEEP", "INSERT INTO ORDERS (ID) VALUES ($KEEP)", "SELECT ID FROM ORDERS WHERE ID = $KEEP"):
            env.count("cmp_exception")
            o = core.run_stmt(conn.cursor(), text)
            if o["ok"]:
                env.witness("C07/statement-succeeded/undefined-variable-same-text-as-before-unset", f"{text} -> {o['rows']}")
            elif o["exc"]["cls"] != "ProgrammingError":
                env.witness(f"C07/not-a-snowflake-error/undefined-variable/{o['exc']['cls']}", text)
        n = cur.execute("SELECT COUNT(*) FROM ORDERS").fetchall()
        if n != [(1,)]:
            env.witness("C07/failed-statement-changed-state/undefined-variable-same-text", f"ORDERS holds {n}")
        env.nontrivial(("same_text_after_unset",))
    finally:
        fs.duck_conn.close()


def _write_pandas_fails(case: dict, env: core.Env) -> None:
    """A load that fails because of what it names fails like the INSERT it stands for, and changes nothing."""
    import pandas as pd

    import fakesnow.fakes as fakes

    fs, conn = _prepare("full")
    try:
        cur = conn.cursor()
        if case["txn"]:
            cur.execute("BEGIN")
            cur.execute("INSERT INTO DB1.S1.ORDERS VALUES (50, 'uncommitted')")
        before = (core.snapshot(fs), core.session_state(conn), _own_view(conn))
        what = case["what"]
        env.count("cmp_exception")
        try:
            if what == "missing_table":
                fakes.write_pandas(conn, pd.DataFrame({"ID": [1]}), "NO_SUCH_TABLE_WP")
            elif what == "missing_schema":
                fakes.write_pandas(conn, pd.DataFrame({"ID": [1]}), "ORDERS", database="DB1", schema="NO_SCHEMA")
            else:
                fakes.write_pandas(conn, pd.DataFrame({"ID": [1], "NOCOL": ["x"]}), "ORDERS")
            env.witness(f"C07/statement-succeeded/write_pandas_{what}", "the load succeeded")
        except core.sferr.ProgrammingError as e:
            if what == "missing_table" and (e.errno, e.sqlstate) != (2003, "42S02"):
                env.witness(f"C07/wrong-codes/write_pandas_{what}", f"{e.errno}/{e.sqlstate}: {e.msg}")
        except Exception as e:  # noqa: BLE001
            env.witness(f"C07/not-a-snowflake-error/write_pandas/{what}/{type(e).__name__}", str(e)[:300])
        env.count("cmp_unchanged")
        after = (core.snapshot(fs), core.session_state(conn), _own_view(conn))
        if after != before:
            env.witness(f"C07/failed-statement-changed-state/write_pandas_{what}", str(core.snap_diff(before[0], after[0]) or "session / own view")[:400])
        o = core.run_stmt(conn.cursor(), "SELECT COUNT(*) FROM DB1.S1.ORDERS")
        if not o["ok"]:
            env.witness(f"C07/connection-unusable-after/write_pandas_{what}", str(o["exc"])[:200])
        env.nontrivial(("write_pandas_fails", what, case["txn"]))
    finally:
        fs.duck_conn.close()


def _closed(case: dict, env: core.Env) -> None:
    import pandas as pd

    import fakesnow.fakes as fakes

    fs, conn = _prepare(case["ctx"])
    try:
        old = conn.cursor()
        old.execute("SELECT 1")
        conn.close()
        env.count("cmp_closed")
        ep = case["entry"]
        try:
            if ep == "execute":
                conn.cursor().execute("SELECT 1")
            elif ep == "cursor_execute":
                conn.cursor().execute("INSERT INTO DB1.S1.ORDERS (ID) VALUES (9)")
            elif ep == "old_cursor":
                old.execute("SELECT 1")
            elif ep == "commit":
                conn.commit()
            elif ep == "rollback":
                conn.rollback()
            elif ep == "execute_string":
                conn.execute_string("SELECT 1; SELECT 2")
            elif ep == "executemany":
                conn.cursor().executemany("INSERT INTO DB1.S1.ORDERS (ID) VALUES (%s)", [(1,), (2,)])
            elif ep == "description":
                _ = old.description
            elif ep == "describe":
                old.describe("SELECT 1")
            elif ep == "statement":
                ep = "statement:" + " ".join(case["sql"].split()[:2]).upper()
                old.execute(case["sql"])
            elif ep == "write_pandas":
                fakes.write_pandas(conn, pd.DataFrame({"ID": [1]}), "ORDERS", database="DB1", schema="S1")
            env.witness(f"C07/closed-connection/no-error/{ep}", "use of a closed connection succeeded")
        except core.sferr.DatabaseError as e:
            if (e.errno, e.sqlstate) != (250002, "08003"):
                env.witness(f"C07/closed-connection/wrong-codes/{ep}", f"{e.errno}/{e.sqlstate}: {e.msg}")
        except Exception as e:  # noqa: BLE001
            env.witness(f"C07/closed-connection/wrong-exception/{ep}/{type(e).__name__}", str(e)[:300])
        if not conn.is_closed():
            env.witness("C07/closed-connection/is_closed-false", "")
        env.nontrivial(("closed", ep, case["ctx"]))
    finally:
        fs.duck_conn.close()
