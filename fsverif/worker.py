"""Worker subprocess: runs one shard of one property's cases and writes a JSON result."""

from __future__ import annotations

import faulthandler
import importlib
import json
import sys
import time
import traceback


def main() -> int:
    prop, tier, seed, shard, nshards, budget, outfile = sys.argv[1:8]
    seed, shard, nshards, budget = int(seed), int(shard), int(nshards), float(budget)
    faulthandler.enable()

    from fsverif import core

    mod = importlib.import_module(f"fsverif.props.{prop.lower()}")
    env = core.Env(prop, tier, seed, shard, nshards)
    t0 = time.monotonic()
    stopped_early = False
    status = "done"
    err = None
    try:
        if hasattr(mod, "setup_worker"):
            mod.setup_worker(env)
        for i, case in enumerate(mod.gen_cases(tier, seed)):
            if i % nshards != shard:
                continue
            if time.monotonic() - t0 > budget:
                stopped_early = True
                break
            env.case = case
            env.evaluations += 1
            # sidecar for the parent: which case was running if this process dies in native code
            with open(outfile + ".cur", "w") as cf:
                json.dump({"index": i, "case": core.jsonable(case)}, cf)
            env.sample(case)
            try:
                mod.run_case(case, env)
            except core.Inconclusive as e:
                env.count("inconclusive_cases")
                env.counters["inconclusive_reason:" + str(e)[:80]] += 1
            except Exception as e:  # harness bug or unexpected: never a silent pass
                env.count("harness_errors")
                err = f"case {i}: {type(e).__name__}: {e}\n{traceback.format_exc()[-1500:]}"
                status = "harness_error"
                env.witnesses.append({"key": "HARNESS-ERROR", "detail": err, "case": core.jsonable(case)})
                break
        if hasattr(mod, "teardown_worker"):
            mod.teardown_worker(env)
    except Exception as e:  # noqa: BLE001
        status = "harness_error"
        err = f"{type(e).__name__}: {e}\n{traceback.format_exc()[-1500:]}"
    out = env.dump()
    out.update(status=status, error=err, stopped_early=stopped_early, wall=time.monotonic() - t0, shard=shard)
    with open(outfile, "w") as f:
        json.dump(out, f)
    return 0


if __name__ == "__main__":
    sys.exit(main())
