"""Small deterministic reference models shared by the monitors (three-valued predicate
language, table multiset model)."""

from __future__ import annotations

import datetime
import decimal
import random
from collections import Counter
from typing import Any

D = decimal.Decimal

# column name -> type tag
COLS = [("A", "int"), ("B", "str"), ("C", "dec"), ("D", "bool"), ("E", "date")]
COLTYPE = dict(COLS)
DDL_COLS = "A INT, B VARCHAR, C NUMBER(10,2), D BOOLEAN, E DATE"

POOL = {
    "int": [0, 1, 2, 3, 5, -1, 7, 100, None],
    "str": ["a", "b", "ab", "", "z", "B", "a b", "please call me", "grant x", None],
    "dec": [D("0.00"), D("1.50"), D("2.25"), D("-3.75"), D("10.00"), None],
    "bool": [True, False, None],
    "date": [datetime.date(2020, 1, 1), datetime.date(1969, 12, 31), datetime.date(2024, 2, 29), None],
}


def lit(v: Any, t: str) -> str:
    if v is None:
        return "NULL"
    if t == "int":
        return str(v)
    if t == "str":
        return "'" + v.replace("'", "''") + "'"
    if t == "dec":
        return f"{v}"
    if t == "bool":
        return "TRUE" if v else "FALSE"
    if t == "date":
        return f"'{v.isoformat()}'::DATE"
    raise ValueError(t)


def norm(v: Any) -> Any:
    if isinstance(v, D):
        return ("dec", str(v.quantize(D("0.01"))))
    if isinstance(v, bool):
        return ("bool", v)
    if isinstance(v, datetime.date):
        return ("date", v.isoformat())
    return v


def norm_row(r: tuple) -> tuple:
    return tuple(norm(v) for v in r)


def multiset(rows: list) -> Counter:
    return Counter(norm_row(tuple(r)) for r in rows)


def gen_row(r: random.Random, null_p: float = 0.2) -> list:
    row = []
    for _, t in COLS:
        pool = [v for v in POOL[t] if v is not None]
        row.append(None if r.random() < null_p else r.choice(pool))
    return row


# ---------------------------------------------------------------------------
# predicate language (plain JSON lists):
#   ["cmp", col, op, value]      op in = <> < <= > >=
#   ["colcmp", col1, op, col2]
#   ["isnull", col, negated]
#   ["in", col, [values]]
#   ["between", col, lo, hi]
#   ["and", p, q] ["or", p, q] ["not", p]
#   ["true"]
# values are python values encoded with core.jsonable / decoded by core.unjson.
# ---------------------------------------------------------------------------
OPS = ["=", "<>", "<", "<=", ">", ">="]


def gen_pred(r: random.Random, depth: int = 0, cols: list | None = None) -> list:
    cols = cols or COLS
    x = r.random()
    if depth < 2 and x > 0.94:
        # a sub-predicate next to its own negation: TRUE / FALSE in two-valued logic, UNKNOWN for NULLs in SQL's
        a, b = gen_pred(r, 2, cols), gen_pred(r, 2, cols)
        shape = r.randrange(4)
        if shape == 0:
            return ["or", a, ["not", a]]
        if shape == 1:
            return ["not", ["and", a, ["not", a]]]
        if shape == 2:
            return ["or", ["and", a, b], ["and", a, ["not", b]]]
        return ["and", ["or", a, b], ["or", a, ["not", b]]]
    if depth < 2 and x < 0.3:
        k = r.choice(["and", "or", "not"])
        if k == "not":
            return ["not", gen_pred(r, depth + 1, cols)]
        return [k, gen_pred(r, depth + 1, cols), gen_pred(r, depth + 1, cols)]
    c, t = r.choice(cols)
    pool = [v for v in POOL[t] if v is not None]
    y = r.random()
    if y < 0.45:
        ops = ["=", "<>"] if t == "bool" else OPS
        return ["cmp", c, r.choice(ops), r.choice(pool)]
    if y < 0.6:
        return ["isnull", c, r.random() < 0.5]
    if y < 0.75:
        return ["in", c, [r.choice(pool) for _ in range(r.randint(1, 3))]]
    if y < 0.85 and t != "bool":
        lo, hi = r.choice(pool), r.choice(pool)
        return ["between", c, lo, hi]
    if y < 0.93:
        other = r.choice([["lit", r.choice(pool)], ["lit", None], ["col", r.choice([cc for cc, tt in cols if tt == t])]])
        return ["eqnull", c, other, r.choice(["bare", "bare", "eq_false", "ne_true", "false_eq", "in_false", "eq_true", "not"])]
    if y < 0.97:
        same = [cc for cc, tt in cols if tt == t]
        ops = ["=", "<>"] if t == "bool" else OPS
        return ["colcmp", c, r.choice(ops), r.choice(same)]
    return ["true"]


def pred_sql(p: list, prefix: str = "") -> str:
    k = p[0]
    if k == "true":
        return "1 = 1"
    if k == "cmp":
        return f"{prefix}{p[1]} {p[2]} {lit(p[3], COLTYPE[p[1]])}"
    if k == "colcmp":
        return f"{prefix}{p[1]} {p[2]} {prefix}{p[3]}"
    if k == "isnull":
        return f"{prefix}{p[1]} IS {'NOT ' if p[2] else ''}NULL"
    if k == "in":
        return f"{prefix}{p[1]} IN ({', '.join(lit(v, COLTYPE[p[1]]) for v in p[2])})"
    if k == "between":
        t = COLTYPE[p[1]]
        return f"{prefix}{p[1]} BETWEEN {lit(p[2], t)} AND {lit(p[3], t)}"
    if k == "eqnull":
        other = lit(p[2][1], COLTYPE[p[1]]) if p[2][0] == "lit" else f"{prefix}{p[2][1]}"
        call = f"EQUAL_NULL({prefix}{p[1]}, {other})"
        return {"bare": call, "eq_false": f"{call} = FALSE", "ne_true": f"{call} <> TRUE", "false_eq": f"FALSE = {call}", "in_false": f"{call} IN (FALSE)",
                "eq_true": f"{call} = TRUE", "not": f"NOT {call}"}[p[3]]
    if k == "and":
        return f"({pred_sql(p[1], prefix)} AND {pred_sql(p[2], prefix)})"
    if k == "or":
        return f"({pred_sql(p[1], prefix)} OR {pred_sql(p[2], prefix)})"
    if k == "not":
        return f"(NOT {pred_sql(p[1], prefix)})"
    raise ValueError(k)


def _cmp(a: Any, op: str, b: Any) -> bool | None:
    if a is None or b is None:
        return None
    return {"=": a == b, "<>": a != b, "<": a < b, "<=": a <= b, ">": a > b, ">=": a >= b}[op]


def _and(a: bool | None, b: bool | None) -> bool | None:
    if a is False or b is False:
        return False
    if a is None or b is None:
        return None
    return True


def _or(a: bool | None, b: bool | None) -> bool | None:
    if a is True or b is True:
        return True
    if a is None or b is None:
        return None
    return False


def pred_eval(p: list, row: dict) -> bool | None:
    k = p[0]
    if k == "true":
        return True
    if k == "cmp":
        return _cmp(row[p[1]], p[2], p[3])
    if k == "colcmp":
        return _cmp(row[p[1]], p[2], row[p[3]])
    if k == "isnull":
        return (row[p[1]] is not None) if p[2] else (row[p[1]] is None)
    if k == "in":
        v = row[p[1]]
        res: bool | None = False
        for x in p[2]:
            res = _or(res, _cmp(v, "=", x))
        return res
    if k == "between":
        v = row[p[1]]
        return _and(_cmp(v, ">=", p[2]), _cmp(v, "<=", p[3]))
    if k == "eqnull":
        a = row[p[1]]
        b = p[2][1] if p[2][0] == "lit" else row[p[2][1]]
        same = (a is None and b is None) or (a is not None and b is not None and a == b)
        return same if p[3] in ("bare", "eq_true") else (not same)
    if k == "and":
        return _and(pred_eval(p[1], row), pred_eval(p[2], row))
    if k == "or":
        return _or(pred_eval(p[1], row), pred_eval(p[2], row))
    if k == "not":
        v = pred_eval(p[1], row)
        return None if v is None else (not v)
    raise ValueError(k)


def row_dict(row: list) -> dict:
    return {c: v for (c, _), v in zip(COLS, row)}
