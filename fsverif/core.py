"""Common machinery: environment (counters / witnesses), client-boundary recorder,
side-channel snapshots, exception classification."""

from __future__ import annotations

import datetime
import decimal
import hashlib
import json
import math
import os
import random
import sys
from collections import Counter, defaultdict
from typing import Any

REPO = os.environ.get("FSVERIF_REPO", "/repo")
if sys.path[0] != REPO:
    sys.path.insert(0, REPO)

import duckdb  # noqa: E402
import snowflake.connector  # noqa: E402
import snowflake.connector.errors as sferr  # noqa: E402
from snowflake.connector.cursor import DictCursor  # noqa: E402,F401

from fsverif import tap  # noqa: E402

import fakesnow  # noqa: E402
import fakesnow.instance  # noqa: E402

assert os.path.realpath(fakesnow.__file__).startswith(os.path.realpath(REPO) + os.sep), (
    f"fakesnow imported from {fakesnow.__file__}, expected under {REPO}"
)

tap.install()


class Inconclusive(Exception):
    """A case whose verdict cannot be decided (timeout, hook not reached)."""


# ----------------------------------------------------------------------------
# environment
# ----------------------------------------------------------------------------
class Env:
    """Per-worker accumulator of what the monitors observed."""

    def __init__(self, prop: str, tier: str, seed: int, shard: int = 0, nshards: int = 1):
        self.prop = prop
        self.tier = tier
        self.seed = seed
        self.shard = shard
        self.nshards = nshards
        self.counters: Counter = Counter()
        self.coverage: dict[str, Counter] = defaultdict(Counter)
        self.witnesses: list[dict] = []
        self.witness_counts: Counter = Counter()
        self.fingerprints: set[str] = set()
        self.samples: list[Any] = []
        self.evaluations = 0
        self.case: Any = None  # current case (for witnesses)

    def rng(self, *parts: Any) -> random.Random:
        return random.Random(f"{self.seed}:{self.prop}:" + ":".join(map(str, parts)))

    def count(self, name: str, n: int = 1) -> None:
        self.counters[name] += n

    def cover(self, table: str, cell: Any, n: int = 1) -> None:
        self.coverage[table][str(cell)] += n

    def nontrivial(self, fp: Any) -> None:
        if not isinstance(fp, str):
            fp = json.dumps(fp, sort_keys=True, default=repr)
        self.fingerprints.add(hashlib.sha1(fp.encode("utf-8", "replace")).hexdigest()[:16])

    def sample(self, case: Any, limit: int = 4) -> None:
        if len(self.samples) < limit:
            self.samples.append(jsonable(case))

    def witness(self, key: str, detail: str, case: Any = None, extra: Any = None) -> None:
        """Record a violation witness.  ``key`` is the structural mechanism key."""
        self.witness_counts[key] += 1
        if self.witness_counts[key] <= 3:
            self.witnesses.append(
                {
                    "key": key,
                    "detail": detail[:2000],
                    "case": jsonable(case if case is not None else self.case),
                    "extra": jsonable(extra),
                }
            )

    def dump(self) -> dict:
        return {
            "evaluations": self.evaluations,
            "counters": dict(self.counters),
            "coverage": {k: dict(v) for k, v in self.coverage.items()},
            "witnesses": self.witnesses,
            "witness_counts": dict(self.witness_counts),
            "fingerprints": sorted(self.fingerprints),
            "samples": self.samples,
            "tap_calls": tap.CALLS,
            "tap_shapes": len(tap.SHAPES),
        }


def jsonable(x: Any) -> Any:
    """Lossless-enough JSON rendering of cases / values (tagged)."""
    if x is None or isinstance(x, (bool, int, str)):
        return x
    if isinstance(x, float):
        if math.isnan(x) or math.isinf(x):
            return {"$float": repr(x)}
        return x
    if isinstance(x, decimal.Decimal):
        return {"$dec": str(x)}
    if isinstance(x, datetime.datetime):
        return {"$dt": x.isoformat()}
    if isinstance(x, datetime.date):
        return {"$date": x.isoformat()}
    if isinstance(x, datetime.time):
        return {"$time": x.isoformat()}
    if isinstance(x, (bytes, bytearray)):
        return {"$bytes": bytes(x).hex()}
    if isinstance(x, dict):
        return {str(k): jsonable(v) for k, v in x.items()}
    if isinstance(x, (list, tuple, set, frozenset)):
        return [jsonable(v) for v in x]
    return {"$repr": repr(x)}


def unjson(x: Any) -> Any:
    if isinstance(x, dict):
        if len(x) == 1:
            (k, v), = x.items()
            if k == "$float":
                return float(v)
            if k == "$dec":
                return decimal.Decimal(v)
            if k == "$dt":
                return datetime.datetime.fromisoformat(v)
            if k == "$date":
                return datetime.date.fromisoformat(v)
            if k == "$time":
                return datetime.time.fromisoformat(v)
            if k == "$bytes":
                return bytes.fromhex(v)
        return {k: unjson(v) for k, v in x.items()}
    if isinstance(x, list):
        return [unjson(v) for v in x]
    return x


# ----------------------------------------------------------------------------
# instances / exception classification
# ----------------------------------------------------------------------------
def new_fs(**opts: Any) -> "fakesnow.instance.FakeSnow":
    return fakesnow.instance.FakeSnow(**opts)


def raw_root(fs: Any) -> Any:
    """The real (untapped) root DuckDB connection of an instance."""
    return fs.duck_conn._real


def raw_of(conn: Any) -> Any:
    """The real engine connection of a fake connection (its own session view)."""
    return conn._duck_conn._real


def exc_kind(e: BaseException) -> str:
    if isinstance(e, sferr.Error):
        return "snowflake"
    return "internal"


def exc_info(e: BaseException) -> dict:
    d = {
        "cls": type(e).__name__,
        "mod": type(e).__module__,
        "kind": exc_kind(e),
        "msg": str(getattr(e, "msg", None) or e)[:500],
    }
    if isinstance(e, sferr.Error):
        d["errno"] = e.errno
        d["sqlstate"] = e.sqlstate
        d["rawmsg"] = getattr(e, "raw_msg", None)
    return d


def pytypes(rows: list) -> list:
    out = []
    for r in rows:
        if isinstance(r, dict):
            out.append(tuple(type(v).__name__ for v in r.values()))
        else:
            out.append(tuple(type(v).__name__ for v in r))
    return out


def run_stmt(cur: Any, sql: str, params: Any = None, fetch: bool = True) -> dict:
    """Execute at the client boundary and record the outcome."""
    out: dict[str, Any] = {"sql": sql, "params": params}
    try:
        if params is None:
            cur.execute(sql)
        else:
            cur.execute(sql, params)
    except BaseException as e:  # noqa: BLE001
        if isinstance(e, (KeyboardInterrupt, SystemExit)):
            raise
        out["ok"] = False
        out["exc"] = exc_info(e)
        out["sqlstate"] = cur.sqlstate
        return out
    out["ok"] = True
    out["sqlstate"] = cur.sqlstate
    out["rowcount"] = cur.rowcount
    if fetch:
        try:
            out["rows"] = cur.fetchall()
        except BaseException as e:  # noqa: BLE001
            out["fetch_exc"] = exc_info(e)
            out["rows"] = None
    return out


def read_description(cur: Any) -> dict:
    try:
        d = cur.description
        return {"ok": True, "desc": [tuple(x) for x in d], "names": [x.name for x in d]}
    except BaseException as e:  # noqa: BLE001
        if isinstance(e, (KeyboardInterrupt, SystemExit)):
            raise
        return {"ok": False, "exc": exc_info(e)}


# ----------------------------------------------------------------------------
# side-channel snapshots
# ----------------------------------------------------------------------------
SYSTEM_DBS = ("system", "temp")


def _rowkey(row: tuple) -> str:
    return repr(tuple(json.dumps(v, sort_keys=True) if isinstance(v, (dict, list)) else v for v in row))


def snapshot(fs: Any, via: Any = None, data: bool = True, include_fs: bool = True) -> dict:
    """Committed catalog + contents read through a raw engine connection.

    via: a raw duckdb connection (default: fresh cursor of the real root)."""
    own = via is None
    c = raw_root(fs).cursor() if own else via
    try:
        dbs = sorted(
            r[0] for r in c.execute("select database_name from duckdb_databases() where not internal").fetchall()
        )
        schemas = sorted(
            (r[0], r[1])
            for r in c.execute(
                "select database_name, schema_name from duckdb_schemas() "
                "where database_name not in ('system','temp') and schema_name not in ('pg_catalog')"
            ).fetchall()
        )
        views = sorted(
            (r[0], r[1], r[2])
            for r in c.execute(
                "select database_name, schema_name, view_name from duckdb_views() "
                "where not internal and database_name not in ('system') and schema_name <> 'information_schema'"
            ).fetchall()
        )
        # one pass over duckdb_columns() gives tables and their columns (duckdb_tables() is several times slower)
        cols: dict[str, list] = {}
        rows: dict[str, dict] = {}
        tlist: list[tuple] = []
        vset = set(views)
        for db, sc, t, cn, dt in c.execute(
            "select database_name, schema_name, table_name, column_name, data_type from duckdb_columns() "
            "where not internal and database_name not in ('system') order by database_name, schema_name, table_name, column_index"
        ).fetchall():
            if (db, sc, t) in vset or (sc == "information_schema" and not t.startswith("_fs_")):
                continue
            if t.startswith("_fs_") and sc == "information_schema" and t == "_fs_columns_snowflake":
                continue
            key = (db, sc, t)
            if not tlist or tlist[-1] != key:
                tlist.append(key)
            if include_fs or not t.startswith("_fs_"):
                cols.setdefault(f"{db}.{sc}.{t}", []).append((cn, dt))
        tables = sorted(tlist)
        for db, sc, t in tables:
            is_fs = t.startswith("_fs_")
            if is_fs and not include_fs:
                continue
            fq = f'"{db}"."{sc}"."{t}"'
            if data:
                try:
                    rs = c.execute(f"select * from {fq}").fetchall()
                except duckdb.Error as e:  # e.g. dropped concurrently
                    rs = [("<<unreadable>>", type(e).__name__)]
                rows[f"{db}.{sc}.{t}"] = dict(Counter(_rowkey(r) for r in rs))
        return {
            "dbs": dbs,
            "schemas": schemas,
            "tables": tables,
            "views": views,
            "cols": cols,
            "rows": rows,
        }
    finally:
        if own:
            c.close()


def snap_diff(a: dict, b: dict) -> list[str]:
    """Human-readable list of differences between two snapshots."""
    out = []
    for k in ("dbs", "schemas", "tables", "views"):
        if a[k] != b[k]:
            sa = {x if isinstance(x, str) else tuple(x) for x in a[k]}
            sb = {x if isinstance(x, str) else tuple(x) for x in b[k]}
            out.append(f"{k}: -{sorted(sa - sb)} +{sorted(sb - sa)}")
    for k in sorted(set(a["cols"]) | set(b["cols"])):
        if a["cols"].get(k) != b["cols"].get(k) and k in a["cols"] and k in b["cols"]:
            out.append(f"cols[{k}]: {a['cols'].get(k)} -> {b['cols'].get(k)}")
    for k in sorted(set(a["rows"]) | set(b["rows"])):
        if a["rows"].get(k) != b["rows"].get(k) and k in a["rows"] and k in b["rows"]:
            ra, rb = Counter(a["rows"][k]), Counter(b["rows"][k])
            out.append(f"rows[{k}]: -{dict(ra - rb)} +{dict(rb - ra)}"[:600])
    return out


def session_state(conn: Any) -> dict:
    return {
        "database": conn.database,
        "schema": conn.schema,
        "database_set": conn.database_set,
        "schema_set": conn.schema_set,
        "variables": dict(conn.variables._variables),
        "paramstyle": conn._paramstyle,
        "closed": conn._is_closed,
    }


def engine_context(conn: Any) -> tuple[str, str]:
    """current_database(), current_schema() as the engine sees them for this session."""
    r = raw_of(conn).execute("select current_database(), current_schema()").fetchall()[0]
    return r[0], r[1]


# ----------------------------------------------------------------------------
# the repository's own tests as a workload under the always-on invariants (fsverif/pytest_monitors.py)
# ----------------------------------------------------------------------------
def run_repo_tests_under_monitors(env: "Env", key_prefix: str) -> None:
    """Runs the repository's test-suite in a subprocess with the monitor plugin loaded; witnesses whose key starts with
    key_prefix become witnesses of this run, the plugin's evaluation counters are added to the evidence."""
    import subprocess
    import tempfile

    here = os.path.dirname(os.path.dirname(os.path.abspath(__file__)))
    out = tempfile.mktemp(prefix="fsverif-pytest-", suffix=".json")
    cmd = [sys.executable, "-m", "pytest", "-q", "-x", "-p", "no:cacheprovider", "-p", "fsverif.pytest_monitors", "--timeout=900",
           "--deselect", "tests/test_fakes.py::test_get_result_batches", "--deselect", "tests/test_fakes.py::test_get_result_batches_dict"]
    try:
        pr = subprocess.run(cmd, cwd=REPO, capture_output=True, text=True, timeout=900,
                            env={**os.environ, "PYTHONPATH": REPO + os.pathsep + here, "FSVERIF_PYTEST_OUT": out})
    except subprocess.TimeoutExpired:
        raise Inconclusive("repository tests under monitors: watchdog") from None
    try:
        with open(out) as f:
            res = json.load(f)
    except (OSError, ValueError):
        raise Inconclusive(f"repository tests under monitors wrote no result: {pr.stdout[-300:]} {pr.stderr[-300:]}") from None
    finally:
        try:
            os.unlink(out)
        except OSError:
            pass
    env.count("repo_test_runs_under_monitors")
    if res.get("exitstatus") != 0:
        env.count("repo_test_runs_with_failing_tests")
    for name, n in res["counts"].items():
        if not name.startswith("witness:"):
            env.count("repo_tests/" + name, n)
    for w in res["witnesses"]:
        if w["key"].startswith(key_prefix):
            env.witness(w["key"], f"{w['detail']} (in {w['test']})")
    env.nontrivial(("repo_tests", key_prefix))
