"""fsverif: runtime-monitoring harness for tekumara/fakesnow (see /verif/DESIGN.md)."""
