"""Statement zoo: templates over a standard fixture, written with typed segments so that
transformations are structural:

    {i:name}   unquoted identifier (case-insensitive, reported upper-cased)
    {q:Name}   quoted identifier (rendered "Name", reported verbatim)
    {l:text}   verbatim text that must not be respelled (JSON keys, function args that are data)
    '...'      string literal (verbatim)
    anything else: keywords / punctuation (letters may be respelled)

A template is (tag, [statements...], flags). The last statement is "the" statement under
test; earlier ones are per-template setup run in the same session.
"""

from __future__ import annotations

import random
import re
from typing import Any, Callable

_SEG = re.compile(r"'(?:[^']|'')*'|\{[iql]:[^}]*\}|\$\$.*?\$\$", re.S)


def segments(t: str) -> list[tuple[str, str]]:
    out = []
    pos = 0
    for m in _SEG.finditer(t):
        if m.start() > pos:
            out.append(("kw", t[pos:m.start()]))
        g = m.group()
        if g.startswith("{i:"):
            out.append(("id", g[3:-1]))
        elif g.startswith("{q:"):
            out.append(("qid", g[3:-1]))
        elif g.startswith("{l:"):
            out.append(("lit", g[3:-1]))
        else:
            out.append(("lit", g))
        pos = m.end()
    if pos < len(t):
        out.append(("kw", t[pos:]))
    return out


def render(t: str, spell: Callable[[str], str] | None = None) -> str:
    spell = spell or (lambda s: s)
    parts = []
    for kind, text in segments(t):
        if kind in ("kw", "id"):
            parts.append(spell(text))
        elif kind == "qid":
            parts.append('"' + text + '"')
        else:
            parts.append(text)
    return "".join(parts)


def spellers(r: random.Random, k: int) -> list[tuple[str, Callable[[str], str]]]:
    """Named respelling functions: lower, upper, alternating, and k random per-character flips."""
    def alt(s: str) -> str:
        return "".join(c.upper() if i % 2 else c.lower() for i, c in enumerate(s))

    out: list[tuple[str, Callable[[str], str]]] = [("lower", str.lower), ("upper", str.upper), ("alternating", alt)]
    for j in range(k):
        seed = r.randrange(1 << 30)

        def rnd(s: str, seed: int = seed) -> str:
            rr = random.Random(f"{seed}:{s}")
            return "".join(c.upper() if rr.random() < 0.5 else c.lower() for c in s)

        out.append((f"random{j}", rnd))
    return out


# ---------------------------------------------------------------------------
# fixture (run through fakesnow on a connection to db1.s1)
# ---------------------------------------------------------------------------
FIXTURE = [
    "CREATE TABLE PEOPLE (ID INT, NAME VARCHAR, AGE INT, SCORE NUMBER(10,2), ACTIVE BOOLEAN, BORN DATE, SEEN TIMESTAMP_NTZ, DATA VARIANT)",
    "INSERT INTO PEOPLE SELECT 1, 'Ann', 34, 1.50, TRUE, '1990-01-02'::DATE, '2020-01-02 03:04:05'::TIMESTAMP_NTZ, PARSE_JSON('{\"k\": \"v1\", \"n\": 1}')",
    "INSERT INTO PEOPLE SELECT 2, 'bob', 27, 22.25, FALSE, '1969-12-31'::DATE, '1969-12-31 23:59:59.999999'::TIMESTAMP_NTZ, PARSE_JSON('{\"k\": \"v2\", \"a\": [1, 2]}')",
    "INSERT INTO PEOPLE SELECT 3, 'Cy', NULL, NULL, NULL, NULL, NULL, NULL",
    "INSERT INTO PEOPLE SELECT 4, 'Ann', 34, -3.75, TRUE, '2024-02-29'::DATE, '2024-02-29 12:00:00'::TIMESTAMP_NTZ, PARSE_JSON('{\"k\": \"v4\"}')",
    "CREATE TABLE ORDERS (ID INT, PERSON_ID INT, AMOUNT FLOAT, NOTE VARCHAR(20))",
    "INSERT INTO ORDERS VALUES (1, 1, 10.5, 'first'), (2, 1, 200.0, 'big'), (3, 2, 0.25, NULL), (4, 9, 7.0, 'orphan')",
    'CREATE TABLE "Mixed" ("Col" INT, "lower" VARCHAR)',
    "INSERT INTO \"Mixed\" VALUES (1, 'x'), (2, 'y')",
    "CREATE VIEW PEOPLE_V AS SELECT ID, NAME FROM PEOPLE WHERE AGE IS NOT NULL",
    "CREATE SCHEMA S2",
    "CREATE TABLE S2.PEOPLE (ID INT, NAME VARCHAR)",
    "INSERT INTO S2.PEOPLE VALUES (100, 's2-person')",
    "CREATE DATABASE DB2",
    "CREATE SCHEMA DB2.S1",
    "CREATE TABLE DB2.S1.PEOPLE (ID INT, NAME VARCHAR)",
    "INSERT INTO DB2.S1.PEOPLE VALUES (200, 'db2-person')",
    "CREATE TABLE KEYED (ID INT PRIMARY KEY, V VARCHAR(5)) COMMENT = 'keyed table'",
]


def build_fixture(fs: Any) -> Any:
    conn = fs.connect("db1", "s1")
    cur = conn.cursor()
    for s in FIXTURE:
        cur.execute(s)
    return conn


# flags: m = mutates data/catalog/session; o = result order is defined (ORDER BY total); e = expected to fail
Z = [
    # ---- queries
    ("q_cols", ["select {i:id}, {i:name} from {i:people} order by {i:id}"], "o"),
    ("q_star_where", ["select * from {i:people} where {i:age} > 30 order by 1"], "o"),
    ("q_join", ["select {i:p}.{i:name}, {i:o}.{i:amount} from {i:people} {i:p} join {i:orders} {i:o} on {i:p}.{i:id} = {i:o}.{i:person_id} order by 1, 2"], "o"),
    ("q_join_dupnames", ["select {i:p}.{i:id}, {i:o}.{i:id} from {i:people} {i:p} join {i:orders} {i:o} on {i:p}.{i:id} = {i:o}.{i:person_id} order by 1, 2"], "o"),
    ("q_cte", ["with {i:c} as (select {i:id} from {i:people}) select count(*) as {i:n} from {i:c}"], "o"),
    ("q_subquery_in", ["select {i:name} from {i:people} where {i:id} in (select {i:person_id} from {i:orders}) order by 1"], ""),
    ("q_values", ["select * from values (1, 'a'), (2, 'b') order by 1"], "o"),
    ("q_values_cols", ["select {i:column1}, {i:column2} from values (1, 'a'), (2, 'b') order by 1"], "o"),
    ("q_group", ["select {i:age}, count(*) as {i:cnt} from {i:people} group by {i:age} order by 1 nulls last"], "o"),
    ("q_quoted", ["select {q:Col}, {q:lower} from {q:Mixed} order by 1"], "o"),
    # a CTE defined with a quoted upper-case name and referred to without quotes (and the other way round); qualified tables only
    ("q_cte_quoted_def", ["with {q:BIG} as (select id from db1.s1.people) select count(*) as n from {i:big}"], "o"),
    ("q_cte_quoted_ref", ["with {i:big} as (select id from db1.s1.people) select count(*) as n from {q:BIG} b join db1.s1.orders o on o.id = b.id"], "o"),
    # two statements of one shape whose quoted names differ in case only
    ("q_quoted_case_pair_a", ["select 1 as {q:Id}, 2 as {q:lower}", "select 1 as {q:ID}, 2 as {q:LOWER}"], "o"),
    ("q_quoted_case_pair_b", ["select 1 as {q:ID}, 2 as {q:LOWER}", "select 1 as {q:Id}, 2 as {q:lower}"], "o"),
    ("ddl_case_variant_recreate", ["create table {q:orders_lc} ({q:Name} varchar(7), n int)", "drop table {q:orders_lc}", "create table {i:orders_lc} ({i:name} varchar(3))",
                                   "select column_name, character_maximum_length from information_schema.columns where table_name = {l:'ORDERS_LC'} order by 1"], "mo"),
    ("ddl_quoted_case_pair", ["create table {q:Metrics} (id int)", "drop table {q:Metrics}", "create table {q:METRICS} (id int)"], "m"),
    # quoted names that are upper case but still need their quotes (space, dot, dash, parenthesis)
    ("q_quoted_upper_special", ["select id as {q:ORDER ID}, name as {q:A.B}, age as {q:UNIT-PRICE}, 1 as {q:COUNT(*)} from people order by 1"], "o"),
    ("q_alias_mix", ["select {i:id} as {q:MyId}, {i:name} as {i:alias1} from {i:people} order by 1"], "o"),
    ("q_fq", ["select * from {i:db1}.{i:s2}.{i:people} order by 1"], "o"),
    ("q_schema_q", ["select * from {i:s2}.{i:people} order by 1"], "o"),
    ("q_other_db", ["select * from {i:db2}.{i:s1}.{i:people} order by 1"], "o"),
    ("q_view", ["select * from {i:people_v} order by 1"], "o"),
    ("q_case", ["select case when {i:age} > 30 then 'old' else 'young' end as {i:bucket} from {i:people} order by 1"], ""),
    ("q_distinct", ["select distinct {i:active} from {i:people} order by 1 nulls last"], "o"),
    ("q_limit", ["select {i:name} from {i:people} order by {i:id} limit 2"], "o"),
    ("q_funcs", ["select upper({i:name}) as {i:u}, length({i:name}) as {i:l} from {i:people} order by {i:id}"], "o"),
    ("q_current", ["select current_database(), current_schema()"], "o"),
    ("q_json_path", ["select {i:data}{l::k} as {i:v} from {i:people} order by {i:id}"], "o"),
    ("q_json_cast", ["select {i:data}{l::k}::varchar as {i:v}, {i:data}{l::n}::int as {i:n} from {i:people} order by {i:id}"], "o"),
    ("q_random_seed", ["select random(42) as {i:r}"], "o"),
    ("q_union", ["select {i:id} from {i:people} union all select {i:id} from {i:orders} order by 1"], "o"),
    ("q_window", ["select {i:id}, row_number() over (order by {i:id}) as {i:rn} from {i:people} order by 1"], "o"),
    ("q_types", ["select {i:id}, {i:score}, {i:active}, {i:born}, {i:seen}, {i:data} from {i:people} order by 1"], "o"),
    ("q_float", ["select {i:amount}, {i:amount} * 2 as {i:dbl} from {i:orders} order by {i:id}"], "o"),
    ("q_agg", ["select sum({i:score}) as {i:s}, avg({i:age}) as {i:a}, min({i:born}) as {i:mn}, max({i:name}) as {i:mx} from {i:people}"], "o"),
    ("q_empty", ["select {i:id}, {i:name} from {i:people} where 1 = 0"], "o"),
    ("q_lit", ["select 1 as {i:one}, 'two' as {i:two}, 3.5 as {i:three}, true as {i:yes}, null as {i:nothing}"], "o"),
    ("q_cast", ["select {i:id}::varchar as {i:s}, {i:age}::float as {i:f}, {i:score}::number(12,1) as {i:d} from {i:people} order by {i:id}"], "o"),
    ("q_dateadd", ["select dateadd(day, 1, {i:born}) as {i:d} from {i:people} order by {i:id}"], "o"),
    ("q_to_decimal", ["select to_decimal('12.345', 10, 2) as {i:d}"], "o"),
    ("q_array_agg", ["select array_agg({i:id}) within group (order by {i:id}) as {i:ids} from {i:people}"], "o"),
    ("q_object_construct", ["select object_construct('a', {i:id}) as {i:o} from {i:people} order by {i:id}"], "o"),
    ("q_equal_null", ["select equal_null({i:age}, null) as {i:e} from {i:people} order by {i:id}"], "o"),
    ("q_identifier", ["select count(*) as {i:n} from identifier('people')"], "o"),
    ("q_like", ["select {i:name} from {i:people} where {i:name} like 'A%' order by {i:id}"], "o"),
    ("q_sample_seed", ["select count(*) >= 0 as {i:ok} from {i:people} sample (50) seed (7)"], "o"),
    # ---- DML
    ("dml_insert", ["insert into {i:orders} values (10, 1, 9.5, 'n')"], "m"),
    ("dml_insert_cols", ["insert into {i:orders} ({i:id}, {i:note}) values (11, 'x'), (12, 'y')"], "m"),
    ("dml_insert_select", ["insert into {i:orders} select {i:id} + 100, {i:person_id}, {i:amount}, {i:note} from {i:orders}"], "m"),
    ("dml_insert_zero", ["insert into {i:orders} select * from {i:orders} where 1 = 0"], "m"),
    ("dml_update", ["update {i:people} set {i:age} = {i:age} + 1 where {i:id} = 1"], "m"),
    ("dml_update_null", ["update {i:people} set {i:name} = 'Z' where {i:age} is null"], "m"),
    ("dml_update_zero", ["update {i:people} set {i:name} = 'Z' where {i:id} = 999"], "m"),
    ("dml_delete", ["delete from {i:orders} where {i:amount} > 100"], "m"),
    ("dml_delete_all", ["delete from {i:orders}"], "m"),
    ("dml_delete_zero", ["delete from {i:orders} where {i:id} = 999"], "m"),
    ("dml_truncate", ["truncate table {i:orders}"], "m"),
    ("dml_insert_quoted", ["insert into {q:Mixed} ({q:Col}, {q:lower}) values (3, 'z')"], "m"),
    ("dml_merge", ["merge into {i:orders} {i:t} using {i:people} {i:s} on {i:t}.{i:person_id} = {i:s}.{i:id} when matched then update set {i:t}.{i:note} = {i:s}.{i:name} when not matched then insert ({i:id}, {i:person_id}) values ({i:s}.{i:id} + 1000, {i:s}.{i:id})"], "m"),
    ("dml_merge_alias_delete", ["merge into {i:orders} as {i:t} using {i:people} as {i:s} on {i:t}.{i:person_id} = {i:s}.{i:id} when matched and {i:s}.{i:age} > 30 then delete"], "m"),
    ("dml_merge_alias_update", ["merge into {i:orders} {i:t} using {i:people} {i:s} on {i:t}.{i:person_id} = {i:s}.{i:id} when matched then update set {i:note} = 'upd'"], "m"),
    ("dml_merge_subquery", ["merge into {i:orders} {i:t} using (select {i:id}, {i:name} from {i:people}) {i:src} on {i:t}.{i:person_id} = {i:src}.{i:id} when matched then update set {i:t}.{i:note} = {i:src}.{i:name}"], "m"),
    ("dml_merge_delete", ["merge into {i:orders} using {i:people} on {i:orders}.{i:person_id} = {i:people}.{i:id} when matched and {i:people}.{i:age} > 30 then delete"], "m"),
    # ---- DDL
    ("ddl_create_table", ["create table {i:newt} ({i:a} int, {i:b} varchar(10))"], "m"),
    ("ddl_create_table_q", ["create table {q:NewQ} ({q:a} int)"], "m"),
    # a name handed over through IDENTIFIER('..') is an identifier like one written out: folded unless quoted inside the literal
    ("ddl_create_table_identifier_fn", ["create table identifier('newt_fn') ({i:a} int)"], "m"),
    ("ddl_create_table_identifier_fn_fq", ["create table identifier('db1.s1.newt_fq') ({i:a} int)"], "m"),
    ("ddl_create_table_identifier_fn_q", ["create table identifier('\"newt_Fq\"') ({i:a} int)"], "m"),
    ("ddl_drop_table_identifier_fn", ["create table {i:tmpd} ({i:a} int)", "drop table identifier('tmpd')"], "m"),
    ("ddl_create_table_q_dotted", ["create table {q:S2.DOTTED} ({q:ORDER ID} int, {q:X.Y} varchar(5))", "insert into {q:S2.DOTTED} ({q:ORDER ID}) values (1)",
                                   "select {q:ORDER ID} from {q:S2.DOTTED}"], "m"),
    ("ddl_create_table_types", ["create table {i:typed} ({i:a} number(12,3), {i:b} float, {i:c} boolean, {i:d} date, {i:e} timestamp_ntz, {i:f} variant, {i:g} binary, {i:h} time, {i:i} timestamp_tz, {i:j} string, {i:k} text, {i:l} bigint, {i:m} array, {i:n} object)"], "m"),
    ("ddl_ctas", ["create or replace table {i:people2} as select * from {i:people}"], "m"),
    ("ddl_clone", ["create table {i:clone1} clone {i:people}"], "m"),
    ("ddl_create_view", ["create view {i:v2} as select {i:id} from {i:people}"], "m"),
    ("ddl_create_schema", ["create schema {i:s3}"], "m"),
    ("ddl_create_schema_q", ["create schema {q:s Quoted}"], "m"),
    ("ddl_create_schema_fq", ["create schema {i:db2}.{i:s9}"], "m"),
    ("ddl_create_database", ["create database {i:db3}"], "m"),
    ("ddl_create_if_not_exists", ["create table if not exists {i:people} ({i:id} int)"], "m"),
    ("ddl_drop_table", ["drop table {i:orders}"], "m"),
    ("ddl_drop_table_if_exists", ["drop table if exists {i:nonexist}"], "m"),
    ("ddl_drop_view", ["drop view {i:people_v}"], "m"),
    ("ddl_drop_schema", ["drop schema {i:s2}"], "m"),
    ("ddl_add_column", ["alter table {i:people} add column {i:extra} int"], "m"),
    ("ddl_drop_column", ["alter table {i:orders} drop column {i:note}"], "m"),
    ("ddl_rename_column", ["alter table {i:orders} rename column {i:note} to {i:remark}"], "m"),
    ("ddl_rename_table", ["alter table {i:orders} rename to {i:orders2}"], "m"),
    ("ddl_comment_on", ["comment on table {i:people} is 'a comment'"], "m"),
    ("ddl_set_comment", ["alter table {i:people} set comment = 'c2'"], "m"),
    ("ddl_create_with_comment", ["create table {i:t_c} ({i:id} int, {i:s} varchar(7)) comment = 'with comment'"], "m"),
    ("ddl_cluster_by", ["alter table {i:people} cluster by ({i:id})"], "m"),
    ("ddl_set_tag", ["alter table {i:people} set tag {i:tg} = 'v'"], "m"),
    ("ddl_create_tag", ["create tag {i:tg}"], "m"),
    ("ddl_column_set_tag", ["alter table {i:people} modify column {i:name} set tag {i:tg} = 'v'"], "m"),
    ("ddl_column_unset_tag", ["alter table {i:people} modify column {i:name} unset tag {i:tg}"], "m"),
    ("ddl_drop_schema_if_exists", ["drop schema if exists {i:s2}"], "m"),
    ("ddl_drop_table_fq", ["drop table {i:db1}.{i:s2}.{i:people}"], "m"),
    ("ddl_alter_add_varchar", ["alter table {i:orders} add column {i:extra} varchar(12)"], "m"),
    ("ddl_create_or_replace_view", ["create or replace view {i:people_v} as select {i:id} from {i:people}"], "m"),
    # ---- session
    ("ses_use_database", ["use database {i:db2}"], "m"),
    ("ses_use_schema", ["use schema {i:s2}"], "m"),
    ("ses_use_schema_fq", ["use schema {i:db2}.{i:s1}"], "m"),
    ("ses_begin", ["begin"], "m"),
    ("ses_commit_notx", ["commit"], "m"),
    ("ses_rollback_notx", ["rollback"], "m"),
    ("ses_commit_tx", ["begin", "insert into {i:orders} ({i:id}) values (77)", "commit"], "m"),
    ("ses_rollback_tx", ["begin", "insert into {i:orders} ({i:id}) values (78)", "rollback"], "m"),
    ("ses_set", ["set {i:v1} = 5"], "m"),
    ("ses_set_use", ["set {i:v1} = 5", "select ${i:v1} as {i:v}"], "m"),
    ("ses_unset", ["set {i:v1} = 5", "unset {i:v1}"], "m"),
    # ---- SHOW / DESCRIBE / information_schema
    ("show_tables", ["show tables"], ""),
    ("show_terse_tables", ["show terse tables"], ""),
    ("show_tables_schema", ["show tables in schema {i:db1}.{i:s1}"], ""),
    ("show_tables_database", ["show tables in database {i:db1}"], ""),
    ("show_objects", ["show objects"], ""),
    ("show_terse_objects_schema", ["show terse objects in schema {i:db1}.{i:s2}"], ""),
    ("show_schemas", ["show schemas"], ""),
    ("show_schemas_db", ["show schemas in database {i:db2}"], ""),
    ("show_primary_keys", ["show primary keys"], ""),
    ("show_primary_keys_table", ["show primary keys in table {i:keyed}"], ""),
    ("show_users", ["show users"], ""),
    ("desc_table", ["describe table {i:people}"], "o"),
    ("desc_table_short", ["desc table {i:orders}"], "o"),
    ("desc_table_quoted", ["describe table {q:Mixed}"], "o"),
    ("desc_view", ["describe view {i:people_v}"], "o"),
    ("is_tables", ["select {i:table_name}, {i:table_schema}, {i:comment} from {i:information_schema}.{i:tables} where {i:table_schema} = 'S1' order by 1"], "o"),
    ("is_columns", ["select {i:column_name}, {i:data_type}, {i:character_maximum_length} from {i:information_schema}.{i:columns} where {i:table_name} = 'ORDERS' order by {i:ordinal_position}"], "o"),
    ("is_views", ["select {i:table_name} from {i:information_schema}.{i:views} order by 1"], "o"),
    ("is_databases", ["select {i:database_name} from {i:information_schema}.{i:databases} order by 1"], "o"),
    # ---- failing statements (the error outcome must be spelling-independent too)
    ("err_missing_table", ["select * from {i:nonexistent}"], "e"),
    ("err_missing_column", ["select {i:nocol} from {i:people}"], "e"),
    ("err_table_exists", ["create table {i:people} ({i:id} int)"], "e"),
    ("err_missing_schema", ["use schema {i:nosuchschema}"], "e"),
    ("err_undefined_var", ["select ${i:undefined_var_x}"], "e"),
]

ZOO = [{"tag": t, "stmts": s, "mutates": "m" in f, "ordered": "o" in f, "fails": "e" in f} for (t, s, f) in Z]
BY_TAG = {z["tag"]: z for z in ZOO}
